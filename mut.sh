#!/bin/bash
# usage: mut.sh <property> <file> <python-expr old> <new>   : applies a textual mutation to /repo, runs the quick check, reverts
prop=$1; file=$2; old=$3; new=$4
python3 - "$file" "$old" "$new" <<'PY'
import sys
p,old,new=sys.argv[1:4]
s=open(p).read()
assert old in s, "pattern not found"
open(p,'w').write(s.replace(old,new,1))
PY
[ $? -eq 0 ] || exit 9
cd /verif && ./check $prop ${TIER:-quick} 2>&1 | grep -E "VIOLATION|KNOWN|INCONCL|quick:|thorough:" | head -8
git -C /repo checkout -- .
