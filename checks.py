# Per-property check configuration: which harnesses, with which bounds, per tier.
COMMON_ASSUMPTIONS = [
    "trusted base: go/ssa construction (x/tools v0.50.0), the gosym interpreter, z3 4.8.12, the stub contracts listed under coverage.stubs_hit",
    "integers are 64/32/8-bit bit-vectors with wrap-around; strings are an equality-only sort",
    "a check passes only if every path ended normally or by an infeasible assumption; unsupported/unwinding/unknown outcomes make the run inconclusive (exit 2)",
]

CHECKS = {
    "RIBQ": dict(runs=[dict(pkg="rib", harness="VfRIB_StepQuick", reach=["end","acked","failed","held","error","pre-built"], opts=dict(budget_s=60))], level_text="", level_note=""),
    "SMOKE": dict(runs=[dict(pkg="rib", harness="VfSmoke_AddNH", reach=["end","zero","installed"])], level_text="", level_note=""),
    "C05": dict(
        runs=[
            dict(pkg="server", harness="VfC05_isNewMaster", bounds="all 2^256 (candidate, existing) id pairs; no loops"),
            dict(pkg="server", harness="VfC05_runElection", reach=["end", "accepted", "zero-id", "not-single-primary", "unknown-session"],
                 bounds="session table {A,B} each present/absent with arbitrary parameters and last id; arbitrary election state; announcing session any string; id any 128-bit value"),
        ],
        assumptions=[],
        level_text="Bounded symbolic execution of the real election code: every 128-bit id pair / every state of the bounded session table is covered by SMT queries, not sampled.",
        level_note="Trusted: go/ssa, gosym, z3; session table bounded (see evidence.bounds).",
    ),
}

CHECKS["C04"] = dict(
    runs=[dict(pkg="server", harness="VfC04_doModify", load=["server"],
               bounds="session table {A,B} arbitrary; election state arbitrary; calling session any string; batch of 1-2 next-hop ADDs each with nil or arbitrary 128-bit election id")],
    assumptions=["RIB effect observed through next-hop ADD operations in the default network instance (the RIB's own behaviour is C01's)"],
    level_text="Bounded symbolic execution of doModify/modifyEntry/checkElectionForModify from an arbitrary session table and election state: for every id triple (operation, session, server) the solver decides whether the RIB was reached.",
    level_note="Trusted: go/ssa, gosym, z3, rib models (candidateRIB/MergeStructInto, validated by TestVfModelAgreement). Interleavings finer than one message are C11's.",
)
CHECKS["C08"] = dict(
    runs=[dict(pkg="server", harness="VfC08_flushDecision", reach=["authorised", "no-instance", "missing-election-field", "unexpected-election-id", "zero-id", "lower-id", "unknown-instance"],
               bounds="all (instance selector, election field, 128-bit id, server election state) combinations; RIB with one entry per instance")],
    assumptions=[],
    level_text="Bounded symbolic execution of Server.Flush/checkFlushRequest/RIB.Flush: the full decision table with 128-bit ids is decided by SMT queries.",
    level_note="Trusted: go/ssa, gosym, z3, grpc status stub (code+details).",
)

CHECKS["C09"] = dict(
    runs=[dict(pkg="server", harness="VfC09_modify2", reach=["end", "terminated", "clean"], thorough=dict(skip=True),
               bounds="real Server.Modify (3 goroutines, channels) on a scripted stream of 2 symbolic messages then EOF; one other live session with arbitrary parameters; arbitrary election state; deterministic schedule"),
          dict(pkg="server", harness="VfC09_modify3", reach=["end", "terminated", "clean"], quick=dict(skip=True),
               bounds="as modify2 with 3 messages (reaches every state of the per-session automaton)")],
    assumptions=["enum fields range over their defined values", "status codes are pinned only where the specification/compliance suite pins them (DESIGN.md C09)"],
    level_text="Bounded symbolic execution of the real Modify entry point against an independent automaton of the session rules; message contents (modes, 128-bit ids) are symbolic.",
    level_note="Trusted: go/ssa, gosym (coroutine scheduler, one schedule per path), z3, grpc status stub. Interleavings are C10/C11's subject.",
)

NOT_APPLICABLE = {
    "C19": "whole compliance-suite runs over in-memory gRPC against wrapped servers in every order: a whole-program execution through gRPC, testing and reflection; no bounded symbolic encoding within reach (DESIGN.md §8)",
}

FIX_COMMITS = []
