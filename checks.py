# Per-property check configuration: which harnesses, with which bounds, per tier.
COMMON_ASSUMPTIONS = [
    "trusted base: go/ssa construction (x/tools v0.50.0), the gosym interpreter, z3 4.8.12, the stub contracts listed under coverage.stubs_hit",
    "integers are 64/32/8-bit bit-vectors with wrap-around; strings are an equality-only sort",
    "a check passes only if every path ended normally or by an infeasible assumption; unsupported/unwinding/unknown outcomes make the run inconclusive (exit 2)",
]

CHECKS = {
    "C05": dict(
        runs=[
            dict(pkg="server", harness="VfC05_isNewMaster", bounds="all 2^256 (candidate, existing) id pairs; no loops"),
            dict(pkg="server", harness="VfC05_runElection", reach=["end", "accepted", "zero-id", "not-single-primary", "unknown-session"],
                 bounds="session table {A,B} each present/absent with arbitrary parameters and last id; arbitrary election state; announcing session any string; id any 128-bit value"),
            dict(pkg="server", harness="VfC05_concurrent", reach=["end"], validate=0, replay_attempts=3, opts=dict(unwind=16),
                 bounds="two sessions announce arbitrary non-zero 128-bit ids CONCURRENTLY (real runElection in two goroutines); every schedule with up to 2 pre-emptive context switches at synchronisation points; quiescent primary / current id = maximum and its announcer, each response between the announced id and the maximum (native replay: 300 000 rounds of real goroutines)"),
            dict(pkg="server", harness="VfC05_handover", reach=["end"],
                 bounds="A announces any id a and operates (a READ of the election state), B announces any id b (lower / equal / higher), then B and A each operate with their own id: whose operation is accepted = who the primary is (ties go to the later announcer, a lower id never dethrones); both responses carry the running maximum and the first is unchanged by what follows"),
            dict(pkg="server", harness="VfC05_mixed4", reach=["end", "with-operation"], quick=dict(skip=True),
                 bounds="histories from the initial state of 4 steps, each an announcement (A/B, arbitrary non-zero 128-bit id) or an operation (A/B, arbitrary stamp): after every operation the RIB was reached iff the sender is the true primary; at the end every response is unchanged by the later announcements"),
            dict(pkg="server", harness="VfC05_runElection3", quick=dict(skip=True), reach=["end", "accepted", "zero-id", "not-single-primary", "unknown-session"], bounds="as runElection with a session table {A,B,C}"),
        ],
        assumptions=[],
        level_text="Bounded symbolic execution of the real election code: every 128-bit id pair / every state of the bounded session table is covered by SMT queries, not sampled.",
        level_note="Trusted: go/ssa, gosym, z3; session table bounded (see evidence.bounds).",
    ),
}

CHECKS["C04"] = dict(
    runs=[dict(pkg="server", harness="VfC04_doModify", load=["server"],
               bounds="session table {A,B} arbitrary; election state arbitrary; calling session any string; batch of 1-2 next-hop ADDs each with nil or arbitrary 128-bit election id"),
          dict(pkg="server", harness="VfC04_history2", reach=["end"], thorough=dict(skip=True),
               bounds="histories from the initial state: 2 election announcements by sessions A/B in any order with arbitrary non-zero 128-bit ids (through runElection), then one operation from either session stamped with an arbitrary id; the primary is computed by the harness with true 128-bit ordering"),
          dict(pkg="server", harness="VfC04_history3", reach=["end"], quick=dict(skip=True), bounds="as history2 with 3 announcements"),
          dict(pkg="server", harness="VfC04_mixed4", reach=["end", "with-operation"],
               bounds="histories from the initial state of 4 steps, each an election announcement (A/B, arbitrary non-zero 128-bit id) or one operation (A/B, arbitrary stamp), in every interleaving (accepted operation - hand-over - stale operation ...); verdict after every operation"),
          dict(pkg="server", harness="VfC04_mixedLeave3", reach=["end", "with-operation", "departure"], thorough=dict(skip=True),
               bounds="as mixed with 3 steps and ONE departure of a session (deleteClient) before a symbolic step: the departure of the primary or of the standby changes neither the highest id learnt nor what the remaining session may do"),
          dict(pkg="server", harness="VfC04_mixedLeave4", reach=["end", "with-operation", "departure"], quick=dict(skip=True), bounds="as mixedLeave3 with 4 steps"),
          dict(pkg="server", harness="VfC04_concurrent", reach=["end"], validate=0, replay_attempts=3, opts=dict(unwind=16),
               bounds="two sessions announce different arbitrary non-zero 128-bit ids CONCURRENTLY (every schedule with up to 2 pre-emptive context switches), then each sends one operation stamped with its own id: only the higher id's session reaches the RIB (native replay: 200 000 rounds of real goroutines)"),
          dict(pkg="server", harness="VfC04_doModify3", load=["server"], quick=dict(skip=True), bounds="as doModify with a session table {A,B,C} and batches of 1-3 operations")],
    assumptions=["RIB effect observed through next-hop ADD operations in the default network instance (the RIB's own behaviour is C01's)"],
    level_text="Bounded symbolic execution of doModify/modifyEntry/checkElectionForModify from an arbitrary session table and election state: for every id triple (operation, session, server) the solver decides whether the RIB was reached.",
    level_note="Trusted: go/ssa, gosym, z3, rib models (candidateRIB/MergeStructInto, validated by TestVfModelAgreement). Interleavings finer than one message are C11's.",
)
CHECKS["C08"] = dict(
    runs=[dict(pkg="rib", harness="VfC08_flush_q", reach=["end", "pre-built"], thorough=dict(skip=True), opts=dict(only=["C08:", "C01:", "C03:"]),
               bounds="canonical pre-state: 1 next-hop, 1 group (either instance; optional backup id: missing/self/other), 1 top-level entry (either instance, optional cross-instance reference); Flush of {default}, {vrf} or both"),
          dict(pkg="rib", harness="VfC08_flush_qx", reach=["end", "pre-built"], opts=dict(only=["C08:", "C01:", "C03:"]),
               bounds="a next-hop and a group in each instance, 2 IPv4 entries in either instance (implicit and explicit group instances); Flush of {default}, {vrf} or both; THEN three symbolic operations in one instance - next-hop ADD, group ADD, group DELETE (symbolic ids) - judged against the referrers that survived the Flush (entries of the other instance still pointing into the flushed one)"),
          dict(pkg="rib", harness="VfC08_flush_history", reach=["end", "pre-built", "post-delete-refused", "referrer-deleted"], opts=dict(only=["C08:", "C01:", "C03:"]),
               bounds="fixed shape, symbolic choices: next-hop + group g (symbolic id) in DEFAULT, an IPv4 / IPv6 / label entry of VRF-A pointing at it; Flush of DEFAULT only; optionally DELETE of the dangling entry while the group is absent; next-hop and group programmed again; DELETE of the group - refused exactly while an installed entry points at it; whole-RIB view (RIBContents) read before and after"),
          dict(pkg="rib", harness="VfC08_flush_big", reach=["end", "pre-built"], opts=dict(only=["C08:", "C01:", "C03:"]),
               bounds="scale: the large pre-state of VfRIB_big (16 next-hops, 8 groups, 12 top-level entries, cross-instance references, 9 held operations); Flush of {default}, {vrf} or both (VRF first); then one further symbolic next-hop / group operation"),
          dict(pkg="rib", harness="VfC08_flush_t", reach=["end", "pre-built"], quick=dict(skip=True), opts=dict(only=["C08:", "C01:", "C03:"]),
               bounds="as flush_q with 2 groups (shared backup ids), all top-level kinds, every map iteration order (n<=3)"),
          dict(pkg="rib", harness="VfC08_flushConcurrent", reach=["end"], validate=0, replay_attempts=3, watchdog_s=30, opts=dict(only=["C08:"], unwind=16),
               bounds="two Flush calls over both instances at the same time (two Flush RPCs): every schedule with up to 2 pre-emptive context switches x every iteration order of the maps the code walks: both return without error, both instances are empty, no lock is left behind; natively the pair is repeated 400 times per attempt"),
          dict(pkg="server", harness="VfC08_flushDecision", reach=["authorised", "no-instance", "missing-election-field", "unexpected-election-id", "zero-id", "lower-id", "unknown-instance"],
               bounds="all (instance selector, election field, 128-bit id, server election state) combinations; RIB with one entry per instance")],
    assumptions=[],
    level_text="Bounded symbolic execution of Server.Flush/checkFlushRequest/RIB.Flush: the full decision table with 128-bit ids is decided by SMT queries.",
    level_note="Trusted: go/ssa, gosym, z3, grpc status stub (code+details).",
)

CHECKS["C09"] = dict(
    runs=[dict(pkg="server", harness="VfC09_modify2", reach=["end", "terminated", "clean"], thorough=dict(skip=True),
               bounds="real Server.Modify (3 goroutines, channels) on a scripted stream of 2 symbolic messages (an operation message carries 1-2 operations, each with its own optional election stamp; all combinations of two or three populated fields) then EOF; one other live session with arbitrary parameters; arbitrary election state; deterministic schedule"),
          dict(pkg="server", harness="VfC09_session3", reach=["end", "terminated", "clean"],
               bounds="as modify2 with the script [session parameters, election announcement, operation message of 1-2 operations]: shapes fixed, every content symbolic (modes, 128-bit ids, each operation's own optional stamp)"),
          dict(pkg="server", harness="VfC09_modify3", reach=["end", "terminated", "clean"], quick=dict(skip=True),
               bounds="3 messages: session parameters, an election announcement (contents symbolic), then ONE free message of any of the 9 kinds incl. two- and three-field messages (three entirely free messages: > 10^6 paths, not finished in 35 min - outside the claim; modify2 covers every first and second message)")],
    assumptions=["enum fields range over their defined values", "status codes are pinned only where the specification/compliance suite pins them (DESIGN.md C09)"],
    level_text="Bounded symbolic execution of the real Modify entry point against an independent automaton of the session rules; message contents (modes, 128-bit ids) are symbolic.",
    level_note="Trusted: go/ssa, gosym (coroutine scheduler, one schedule per path), z3, grpc status stub. Interleavings are C10/C11's subject.",
)


def _rib(only, quick, thorough):
    rs = []
    for h, b in quick:
        rs.append(dict(pkg="rib", harness=h, reach=["end", "pre-built"], opts=dict(only=only), bounds=b))
    for h, b in thorough:
        rs.append(dict(pkg="rib", harness=h, reach=["end", "pre-built"], quick=dict(skip=True), opts=dict(only=only), bounds=b))
    for r in rs:
        if r["harness"] in ("VfRIB_qo", "VfRIB_tOrder", "VfRIB_q3h"):
            r["replay_attempts"] = 40   # counterexamples depend on Go's randomised map iteration order
            r["replay_candidates"] = 4
        if r["harness"] == "VfRIB_qPfx":
            # concrete prefixes: code that parses them (net/netip) runs on its real, initialised package state
            r["initpkg"] = ["net/netip"]
    return rs

_B = dict(
    VfRIB_q1="two instances; canonical pre-state through the public API: 1 next-hop + 1 group (<=1 member) in the default instance, 1 IPv4/MPLS entry in either instance (optional cross-instance reference), all optional; then ONE fully symbolic operation (5 kinds x ADD/REPLACE/DELETE x any instance name x symbolic key/payload/references, group of <=2 members)",
    VfRIB_q2="as q1 but the third slot is a HELD operation (group or IPv4/MPLS entry with an unresolved reference) instead of an installed entry; step group has <=1 member",
    VfRIB_qNoFwd="forward references disallowed; pre-state 1 next-hop + 1 group; one symbolic operation",
    VfRIB_t1="both forward-reference modes; pre-state 1 next-hop + 1 group (default instance), 1 top-level entry (IPv4/IPv6/MPLS, either instance), 1 held operation; one symbolic operation with <=2 members (about 4 x 10^5 paths)",
    VfRIB_t2="pre-state 1 next-hop, 1 group; TWO consecutive symbolic operations (next-hop / group / IPv4 entry; ADD/REPLACE/DELETE; any instance name)",
    VfRIB_tOrder="pre-state 1 next-hop, 1 group, 2 held operations; one symbolic next-hop/group ADD/REPLACE; every iteration order of the held-operation map",
)
_B["VfRIB_q3"] = "pre-state 1 next-hop, 1 group, 1 stale held REPLACE (its key was deleted after it was held); one symbolic operation"
_B["VfRIB_qx"] = "cross-instance references: a next-hop and a group in EACH of the two instances (the same group id may exist in both), 1 IPv4 entry in either instance with optional explicit group instance; one symbolic IPv4 ADD/REPLACE/DELETE (retargeting a reference between instances / groups)"
_B["VfRIB_qo"] = "acknowledgement order: 1 next-hop, 2 held IPv4 entries (possibly the same key, different payloads) waiting for a group; one symbolic group ADD/REPLACE; every iteration order of the held-operation map (native replay repeated up to 40 times since Go randomises map order)"
_B["VfRIB_qEnum"] = "enum-typed payload: pre-state 1 optional next-hop (encapsulate-/decapsulate-header any DEFINED number) + 1 optional group; one symbolic next-hop ADD/REPLACE/DELETE whose two header fields are ANY int32 (all 2^64 pairs, defined or not), any instance name, symbolic index"
_B["VfRIB_qPayload"] = "extended next-hop payload: pre-state 1 optional next-hop carrying one of 13 payload shapes with schema-valid content (address, MAC, interface / subinterface reference, IP-in-IP source+destination, pushed label stack of 1-3 labels, or all of them) + 1 optional group; one symbolic next-hop ADD/REPLACE/DELETE whose payload is any of the 13 shapes with ANY content (8 schema-invalid addresses, 6 invalid MACs, any 64-bit subinterface number and labels), any instance name, symbolic index: invalid content is malformed, valid content is payload and an ADD replaces the WHOLE payload"
_B["VfRIB_qPayloadTop"] = "extended top-level payload: 1 next-hop, 1 group, 1 optional IPv4/IPv6/label entry with an optional decapsulate-header (any defined number) / popped label stack (1-2 labels); one symbolic ADD/REPLACE/DELETE of such an entry (any 64-bit popped labels; fixed optional fields)"
_B["VfRIB_qPayloadEH"] = "encapsulation headers: pre-state 1 optional next-hop with schema-valid headers + 1 optional group; one symbolic next-hop ADD/REPLACE/DELETE carrying one MPLS header (index 0 or 255, stack of 2 labels, traffic class: ANY 64-bit numbers), one UDPv6 header with every field (ANY numbers for DSCP / ports / TTL, valid addresses), or two headers in either index order with a valid or schema-invalid source address: out-of-range content is malformed, valid content is payload replaced as a whole"
_RE = [("VfRIB_qEnum", _B["VfRIB_qEnum"]), ("VfRIB_qPayload", _B["VfRIB_qPayload"]), ("VfRIB_qPayloadTop", _B["VfRIB_qPayloadTop"]), ("VfRIB_qPayloadEH", _B["VfRIB_qPayloadEH"])]
_B["VfRIB_big"] = "scale: a large pre-state of concrete shape built through the API (16 next-hops, 8 two-member groups sharing next-hops, 6 IPv4 (symbolic distinct prefixes) / 4 MPLS / 2 IPv6 entries over two instances incl. cross-instance references, 6 held groups + 3 held entries), then ONE fully symbolic operation that may hit any installed or held object"
_RS = [("VfRIB_big", _B["VfRIB_big"])]
_B["VfRIB_q3h"] = "the stale held REPLACE of q3 next to TWO further held operations (groups waiting for a next-hop - possibly the group the REPLACE waits for - or IPv4 entries, possibly the REPLACE's own key), then one symbolic next-hop / group ADD that starts a cascade; every iteration order of the held-operation map"
_B["VfRIB_qW"] = "weighted groups: members carry an optional weight of ANY 64-bit value (0 included); pre-state 1 next-hop, 1 group (<=1 member), 1 held IPv4 entry; one symbolic group ADD/REPLACE/DELETE of <=2 distinct members; forward references allowed or disallowed"
_B["VfRIB_qPfx"] = "prefix spellings: prefixes are drawn from concrete lists of accepted spellings (IPv4 10.0.0.0/8, 10.1.2.3/8, 10.0.0.0/16; IPv6 2001:db8::/64, 2001:db8::1/64, 2001:DB8::/64, 2001:db8:0::/64) - the tables are keyed by the string as sent; pre-state 1 next-hop, 1 group, 1 IPv4 or IPv6 entry; one symbolic operation of any kind / type over the same lists"
_RQ = [(h, _B[h]) for h in ("VfRIB_q1", "VfRIB_q2", "VfRIB_qNoFwd", "VfRIB_qx", "VfRIB_qo", "VfRIB_q3", "VfRIB_q3h", "VfRIB_qW", "VfRIB_qPfx")]
_B["VfRIB_t1r"] = "as q1 (IPv4 entries) with optional payload fields everywhere (next-hop tag / pop-top-label, backup group, metadata); one symbolic operation"
_B["VfRIB_t3e"] = "histories from the EMPTY two-instance RIB: THREE consecutive fully symbolic operations (next-hop / group of <=1 member / IPv4 entry; ADD/REPLACE/DELETE; any instance name)"
_RT = [(h, _B[h]) for h in ("VfRIB_t1", "VfRIB_t1r", "VfRIB_t2", "VfRIB_tOrder")]
_RIBNOTE = "Trusted: go/ssa, gosym, z3, the Go models of candidateRIB/MergeStructInto (validated natively by TestVfModelAgreement on the modelled fields), the reference RIB in harness/rib/vf_ref.go. Payload = key, group reference (+instance), entry metadata, decapsulate-header, popped label stack, group members/weights/backup/colour, next-hop network-instance / pop-top-label / encapsulation headers / address / MAC / interface reference / IP-in-IP / pushed label stack / MPLS and UDPv6 encapsulation headers; other encap-header kinds, GRE, VNI, tunnel source address and enumerated labels in stacks are outside."
_FLUSH_IN_C01 = [dict(pkg="rib", harness="VfC08_flush_q", reach=["end"], thorough=dict(skip=True), opts=dict(only=["C01:"]), bounds="interleaved flushes: tables after Flush of {default}, {vrf} or both equal the fold (see C08)"),
                 dict(pkg="rib", harness="VfC08_flush_qx", reach=["end"], opts=dict(only=["C01:"]), bounds="interleaved flushes with cross-instance references and three further operations (see C08)"),
                 dict(pkg="rib", harness="VfC08_flush_history", reach=["end"], opts=dict(only=["C01:"]), bounds="whole-RIB view (RIBContents) read before and after a Flush, then deletes and re-programming (see C08)")]
CHECKS["C01"] = dict(runs=_rib(["C01:"], _RQ + _RE + _RS, _RT) + _FLUSH_IN_C01, assumptions=["pre-states are reference-closed states built by the canonical history (next-hops, groups, entries, held operations); one or two further symbolic operations"],
    level_text="Differential bounded symbolic execution of the real RIB (AddEntry/DeleteEntry and everything below) against a reference fold of the acknowledged operations: after every operation the real tables equal the fold, for every value of the symbolic keys/payloads/instance names.", level_note=_RIBNOTE)
CHECKS["C02"] = dict(runs=_rib(["C02:"], _RQ + _RS, _RT), assumptions=["as C01"],
    level_text="Same exploration as C01, checking that every acknowledgement happened in a state where the operation was valid and resolvable, that held operations are kept exactly while unresolvable, for every order of the held-operation walk (thorough).", level_note=_RIBNOTE)
CHECKS["C03"] = dict(runs=_rib(["C03:"], _RQ + _RS, _RT) + [dict(pkg="rib", harness="VfC08_flush_q", reach=["end"], thorough=dict(skip=True), opts=dict(only=["C03:"]), bounds="reference counters after Flush (see C08)"),
                                                    dict(pkg="rib", harness="VfC08_flush_qx", reach=["end", "post-delete-refused"], opts=dict(only=["C03:"]), bounds="reference counters after Flush, entries and groups in both instances, and the verdict of a group DELETE after re-programming (see C08)"),
                                                    dict(pkg="rib", harness="VfC08_flush_history", reach=["end", "post-delete-refused", "referrer-deleted"], opts=dict(only=["C03:"]), bounds="reference counters across Flush, deletion of a dangling referrer and re-programming (see C08)"),
                                                    dict(pkg="rib", harness="VfC08_flush_big", reach=["end", "pre-built"], opts=dict(only=["C03:"]), bounds="reference counters after Flush of the large pre-state and one further operation (see C08)"),
                                                    dict(pkg="rib", harness="VfC08_flush_t", reach=["end"], quick=dict(skip=True), opts=dict(only=["C03:"]), bounds="reference counters after Flush (see C08)")],
    assumptions=["as C01"],
    level_text="Same exploration as C01, checking DELETE verdicts against referrers found by scanning the installed entries and the counter==referrers invariant after every operation and after Flush.", level_note=_RIBNOTE)

CHECKS["C12"] = dict(
    runs=[dict(pkg="server", harness="VfC12_malformed", reach=["end", "rejected", "delete-of-absent-key"],
               bounds="one operation sent by the elected primary through doModify/modifyEntry into the real RIB: 31 malformed shapes (nil at every level of every entry kind, zero ids, empty group, zero/body-less members, 11 invalid prefixes, every out-of-range 64-bit label, unknown group instance, every undefined enum number in the encapsulate-/decapsulate-header fields of next-hops and IPv4/IPv6 entries and in an enumerated MPLS label) x any operation type number; plus valid content under an arbitrary unknown/empty instance name or an undefined operation type")]
         + _rib(["C12:"], _RQ + _RE + _RS, _RT),
    assumptions=["what happens inside the real candidateRIB (protomap/ytypes) is replaced by its model; the model's reaction to an enum number the type does not define (panic or error) is a calibration fact measured natively on the current tree before every run (TestVfModelCalibrate) and model and real code are compared on 2 500 / 20 000 random payloads incl. undefined numbers (TestVfModelAgreement); a panic path found through the model is reported only after the real code panicked in the native replay",
                 "nil elements inside repeated fields are not wire-representable and are excluded"],
    level_text="Bounded symbolic execution of the operation path with malformed content at every level: no path panics, every malformed operation is answered FAILED or by a clean RPC error, and a structural before/after comparison of tables, counters and held set shows no effect.",
    level_note=_RIBNOTE)

_B["VfRIB_q3"] = "pre-state 1 next-hop, 1 group, 1 stale held REPLACE (its key was deleted after it was held); one symbolic operation"
_B["VfRIB_qx2"] = "cross-instance held operations: a next-hop in each instance, 1 held operation (group or IPv4 entry in either instance, optional explicit group instance); one symbolic next-hop / group ADD that may resolve it from the other instance"
CHECKS["C06"] = dict(
    runs=[dict(pkg="server", harness="VfC06_doModify", reach=["end"],
               bounds="doModify/modifyEntry/real RIB: elected primary with FIB-ack on/off, 0-1 held operation, a request of 1-2 symbolic operations (next-hop / group / IPv4 entry; ADD/REPLACE/DELETE; any instance name incl. empty and unknown; symbolic keys and references)"),
          dict(pkg="server", harness="VfC06_handover", reach=["end"],
               bounds="hand-over of the primary role while an operation is held: one scripted history with symbolic member / next-hop index"),
          dict(pkg="server", harness="VfC06_cascade8", reach=["end"], opts=dict(unwind=64),
               bounds="ONE next-hop ADD resolves nine held operations (a group and eight IPv4 entries): 10 operations / up to 20 results in one answer, FIB-ack on/off: every id answered once per status, RIB_PROGRAMMED before FIB_PROGRAMMED for every id"),
          dict(pkg="server", harness="VfC06_heldAcrossElection", reach=["end"],
               bounds="an operation of the primary is held; the same session re-announces ANY 128-bit id >= its own; then the resolving operation stamped with the new id: both answered exactly once, both installed, nothing left held; FIB-ack on/off"),
          dict(pkg="server", harness="VfC06_halfClose", reach=["end"], validate=0, replay_attempts=30, replay_candidates=6, opts=dict(unwind=16),
               bounds="real Server.Modify (3 goroutines) on [params, election, ADD] followed at once by a half-close; every schedule with up to 2 pre-emptive context switches at synchronisation points")]
         + [dict(pkg="server", harness="VfC06_manyHeld300", reach=["end", "pre-built", "resolved-one"], validate=2, opts=dict(maxsteps=600000000),
                 bounds="scale: 300 held operations (groups waiting for distinct next-hops), then one symbolic operation of any kind that may resolve any one of them")]
         + _rib(["C06:", "C02:no-held-operation-is-resolvable", "C02:held-operation-kept"], [(h, _B[h]) for h in ("VfRIB_q2", "VfRIB_q3", "VfRIB_q3h", "VfRIB_qx2", "VfRIB_big")], _RT),
    assumptions=["response streams are observed at doModify's result channel (the result pump of Modify forwards them unchanged; its scheduling is C10/C11's subject)"],
    level_text="Bounded symbolic execution of doModify + RIB from symbolic requests: per-id verdict counting over the emitted results, RIB-before-FIB order, and held-set bookkeeping (answered xor held) decided for all symbolic keys/references/instance names.",
    level_note=_RIBNOTE)

CHECKS["C16"] = dict(
    runs=[dict(pkg="rib", harness="VfC16_mirror_q", reach=["end", "pre-built"], thorough=dict(skip=True), opts=dict(only=["C16:"]),
               bounds="post-change hook registered on a two-instance RIB; canonical pre-state (1 next-hop, 1 group, 1 held operation) and one fully symbolic operation, mirror compared with the reference after the build and after the step (includes resolution of held operations)"),
          dict(pkg="rib", harness="VfC16_mirror_q1", reach=["end", "pre-built"], thorough=dict(skip=True), opts=dict(only=["C16:"]),
               bounds="as mirror_q with an installed IPv4/MPLS entry instead of the held operation (replaces and deletes of top-level entries)"),
          dict(pkg="rib", harness="VfC16_mirror_t", reach=["end", "pre-built"], quick=dict(skip=True), opts=dict(only=["C16:"]),
               bounds="as mirror_q1 with all top-level kinds, optional payload fields, groups of <=2 members"),
          dict(pkg="rib", harness="VfC16_flush", reach=["end", "pre-built"], opts=dict(only=["C16:"]), bounds="notifications issued by Flush of {default}, {vrf}, both"),
          dict(pkg="rib", harness="VfC16_resolved", reach=["end", "back-to-back"], replay_attempts=5, opts=dict(only=["C16:"]), bounds="resolved-entry hook: ADD then DELETE of a symbolic IPv4/IPv6/MPLS entry, the consumer running after each change or only after both (back to back); snapshots checked for content at the moment of the change, privacy and stability"),
          dict(pkg="rib", harness="VfC16_resolvedCascade", reach=["end"], opts=dict(only=["C16:"]), bounds="resolved-entry hook for an IPv4 entry that was held (in either instance, waiting for a group of the default instance, implicit or explicit reference) and is installed by the cascade of the group's ADD: instance named in the notification and snapshot content"),
          dict(pkg="rib", harness="VfC16_hookVsNewInstance", reach=["end"], validate=0, replay_attempts=20, opts=dict(only=["C16:"], unwind=16), bounds="the hook is registered WHILE a network instance is being created (two goroutines, every schedule with up to 2 pre-emptive context switches): a later change in the new instance reaches the consumer"),
          dict(pkg="server", harness="VfC16_serverHooks", reach=["end"], bounds="server.New with the hook and VRF options in either order, plus AddNetworkInstance afterwards; one change per instance")],
    assumptions=["ygot.DeepCopy is modelled as a structural deep copy of the heap graph"],
    level_text="Bounded symbolic execution: a consumer folding the notifications is compared with the reference state after every operation, cascade and Flush; server construction is executed for both option orders.",
    level_note=_RIBNOTE)

CHECKS["C07"] = dict(
    runs=[dict(pkg="rib", harness="VfC07_getRIB_q", reach=["end", "pre-built", "all"], thorough=dict(skip=True), opts=dict(only=["C07:"]),
               bounds="canonical pre-state (1 next-hop, 1 group, 1 IPv4/IPv6/MPLS entry, optional payload fields) in two instances; GetRIB of either instance with each of the 6 table filters; ALL compared with the union of the five per-table Gets; FromGetResponses over both instances compared with the reference"),
          dict(pkg="rib", harness="VfC07_getRIB_t", reach=["end", "pre-built", "all"], quick=dict(skip=True), opts=dict(only=["C07:"]),
               bounds="as getRIB_q with 2 next-hops, a held operation (must not be reported), groups of <=2 members"),
          dict(pkg="rib", harness="VfC07_getRIB_p", reach=["end", "pre-built", "all"], opts=dict(only=["C07:"]),
               bounds="extended payload: 1 next-hop with one of 13 payload shapes (address, MAC, interface / subinterface reference, IP-in-IP, pushed label stack of 1-3 labels, all of them; symbolic valid content), 1 group, 1 IPv4/IPv6 entry with a decapsulate-header or 1 label entry with a popped stack of 1-2 labels; GetRIB of either instance with each of the 6 filters; every field and the ORDER of the stacks compared"),
          dict(pkg="rib", harness="VfC07_getRIB_eh", reach=["end", "pre-built", "all"], opts=dict(only=["C07:"]),
               bounds="encapsulation headers: 1 next-hop with an MPLS header (stack of 2, traffic class), a UDPv6 header with every field, or two headers in either index order (symbolic valid content), 1 group; GetRIB with each filter; headers matched by index, every field compared"),
          dict(pkg="rib", harness="VfC07_getAfterCascade", reach=["end", "pre-built"], opts=dict(only=["C07:"]),
               bounds="an IPv4 / IPv6 / label entry held in either instance for a group of the default instance is installed by the cascade of the group's ADD: Get(ALL) of both instances and FromGetResponses show it in its OWN instance"),
          dict(pkg="rib", harness="VfC07_getHistory", reach=["end", "pre-built", "flushed", "deleted", "shrunk"], opts=dict(only=["C07:", "C08:"]),
               bounds="reads interleaved with changes: program next-hop(address+MAC) / group / label entry(popped stack) / IPv4 entry(decapsulate-header), Get(ALL), then nothing / Flush / DELETE of everything / re-programming the same keys with a strict subset of their payload (+ Get), then re-program under symbolic keys (equal to the old ones or not) with payloads of a different kind (interface reference + pushed stack of 3, other stack, other header), Get(ALL), Get(NEXTHOP), Get(MPLS): every Get reflects the state at its moment"),
          dict(pkg="rib", harness="VfC07_getRIB_p2", reach=["end", "pre-built", "all"], quick=dict(skip=True), opts=dict(only=["C07:"]),
               bounds="as getRIB_p (label entries only), then one further symbolic ADD/REPLACE of a next-hop / label entry that may re-program an installed key with any other payload shape, then Get(ALL) of either instance"),
          dict(pkg="rib", harness="VfC07_getRIB_big", reach=["end", "pre-built", "all"], opts=dict(only=["C07:"]),
               bounds="scale: GetRIB of either instance with each of the 6 table filters on the large pre-state of VfRIB_big (held operations must not be reported)"),
          dict(pkg="server", harness="VfC07_doGet", reach=["end"], bounds="Server.Get on a scripted stream: instance selector (all / name incl. empty and unknown) x table filter (any enum number); small concrete RIB in two instances")],
    assumptions=["PARTIAL: the reflection pipeline (protomap / ytypes / ygot) is replaced by models that carry key, group reference(+instance), metadata, members/weights/backup/colour, next-hop network-instance, pop-top-label, encapsulate-/decapsulate-header (next-hops, IPv4/IPv6 entries), next-hop ip-address, mac-address, interface-ref (interface, subinterface), ip-in-ip (source, destination), pushed label stack, encap-headers (index, type, MPLS label stack + traffic class, UDPv6 addresses / ports / DSCP / TTL), label-entry popped label stack (numeric labels); the models are calibrated and compared with the real functions on random payloads (incl. schema-invalid strings and out-of-range numbers) before every run, and sample paths are replayed natively (a native failure of a C07 assertion is reported as a VIOLATION). OUTSIDE this check: GRE / IPv4 / IPv6 / UDPv4 encapsulation-header kinds (fluent cannot set them), GRE, VNI, tunnel source address, enumerated (reserved-name) labels inside stacks, duplicate encap-header indices"],
    level_text="Bounded symbolic execution of GetRIB / doGet / FromGetResponses from symbolic RIB contents: scope, filter, tagging, once-only and modelled-field payload equality are decided for every symbolic key/value.",
    level_note=_RIBNOTE)

CHECKS["C13"] = dict(
    runs=[dict(pkg="client", harness="VfC13_accounting_q", reach=["end", "pre-built", "await-ok", "await-errors"], thorough=dict(skip=True),
               bounds="client in RIB-ack or FIB-ack mode after StartSending; 0-2 operations queued in separate requests or in ONE request (symbolic ids - equal ids included -, ADD/REPLACE/DELETE, IPv4/group/MPLS, symbolic key), handshake answered or not; ONE response of any shape: 1-2 results (symbolic id, status in {FAILED,RIB_PROGRAMMED,FIB_PROGRAMMED,FIB_FAILED,UNSET}), election, session parameters, or mixed content; then the convergence check"),
          dict(pkg="client", harness="VfC13_longReader", reach=["end"], validate=1, opts=dict(only=["C13:"], unwind=40),
               bounds="'at all times': a reader holds the results read lock (a long Results / AckResult / Status call) before or after the session's own requests, 1..3 operations are queued and answered; when no goroutine can move any more, every request handed over is pending xor resulted (operations, election update, session parameters); after the reader has gone the client converges with one result per operation"),
          dict(pkg="client", harness="VfC13_recvViolation", reach=["end"], validate=0, replay_attempts=30, opts=dict(unwind=40),
               bounds="the REAL receive loop (Connect's sender / receiver goroutines on a scripted stream): 1-2 operations queued; the answer completes the last pending operation and also carries a result for an id never sent; AwaitConverged runs concurrently - every schedule with up to 2 pre-emptive context switches at synchronisation points; it never reports success"),
          dict(pkg="client", harness="VfC14_endedThenQueue", reach=["end", "queued"], validate=2, opts=dict(unwind=40, only=["C13:"], timeout_s=600),
               bounds="accounting on a dead stream: the server ended the RPC, then 3 requests are handed to Q: each operation is queued, pending or resulted, or an error is recorded (see C14)"),
          dict(pkg="client", harness="VfC13_accounting_t", reach=["end", "pre-built", "await-ok", "await-errors"], quick=dict(skip=True),
               bounds="as accounting_q (1 operation queued before, IPv4 / group / MPLS kinds) with all three operation types and TWO consecutive responses (RIB-before-FIB sequences, duplicate terminal results, results after completion)")],
    assumptions=["responses are delivered to handleModifyResponse as the receiver goroutine does (errors recorded with addReadErr); goroutine scheduling of Connect is C14's subject",
                 "AwaitConverged is only called when it is specified to return (converged or errors recorded); otherwise isConverged is checked directly"],
    level_text="Bounded symbolic execution of the client's accounting (Q / handleModifyRequest / handleModifyResponse / clearPendingOp / isConverged / AwaitConverged) against a ghost model: every id is pending or completed exactly once for every symbolic id/status combination.",
    level_note="Trusted: go/ssa, gosym (sync/atomic, time.Sleep stubs), z3.")

CHECKS["C17"] = dict(
    runs=[dict(pkg="chk", harness="VfC17_hasResultSession", reach=["end"], opts=dict(only=["C17:"]),
               bounds="session-level results: the session-parameters result and the election id are each absent / present with the zero value (status OK, id 0/0) / present with another value (any 128-bit id), on the wanted result and on 0-1 received results, every option combination: HasResult fails iff absent; HasResultsCache never passes where it fails"),
          dict(pkg="chk", harness="VfC17_hasResult", reach=["end"],
               bounds="0-2 results and one wanted result, each with symbolic operation id, status, optional server error, optional details (ADD/DELETE x next-hop-group / next-hop / IPv4 / IPv6 / MPLS key); all four option combinations"),
          dict(pkg="chk", harness="VfC17_hasResultsCache", reach=["end"], bounds="as hasResult; compared with the specification of the plain checker"),
          dict(pkg="chk", harness="VfC17_hasResultsCache2", reach=["end"], bounds="TWO wanted results of independent shapes (with / without details, any kind, symbolic ids / keys) against 0-1 results, all option combinations: passes iff every want is present, each judged by its own fields"),
          dict(pkg="chk", harness="VfC17_getResponseHasEntries", reach=["end"], bounds="Get response of 0-2 entries (5 kinds, symbolic key and network instance) and one wanted entry built with the fluent API"),
          dict(pkg="chk", harness="VfC17_getResponseLong", reach=["end"], bounds="Get response of FOUR next-hop entries over two network instances in every order (grouped / interleaved / revisited), symbolic indices; one wanted next-hop"),
          dict(pkg="chk", harness="VfC17_errorCounts", reach=["end"], bounds="error nil / ClientErr with 0-2 send and receive errors / other error; wanted count 0-3"),
          dict(pkg="chk", harness="VfC17_recvStatus", reach=["end"], thorough=dict(skip=True), bounds="ClientErr with 0-1 receive error (plain error or status with one of 3 codes incl. Unknown, 2 messages, optional details with 2 reasons) or a non-client error; wanted status likewise; AllowUnimplemented x IgnoreDetails"),
          dict(pkg="chk", harness="VfC17_recvStatusT", reach=["end"], quick=dict(skip=True), bounds="as recvStatus with 0-2 receive errors and 5 codes")],
    assumptions=["cmp.Equal + cmpopts.IgnoreFields + protocmp.Transform are modelled as typed structural equality skipping the ignored fields",
                 "grpc status values are modelled as {code, message, details}; keys in Get responses are non-zero / non-empty"],
    level_text="Bounded symbolic execution of the real checkers with a capturing testing.TB: 'fails iff the wanted item is absent' is decided for all symbolic ids/keys/instances/options.",
    level_note="Trusted: go/ssa, gosym (cmp/protocmp/proto.Clone stubs), z3.")

def _c18(h, b, tier):
    d = dict(pkg="fluent", harness=h, reach=["end"], bounds=b)
    d["thorough" if tier == "quick" else "quick"] = dict(skip=True)
    return d
CHECKS["C18"] = dict(
    runs=[_c18("VfC18_ipv4_2", "every program of 2 builder calls (6 methods, symbolic arguments) + 1 later call, IPv4 builder", "quick"),
          _c18("VfC18_ipv6_2", "as ipv4_2, IPv6 builder", "quick"),
          _c18("VfC18_label_2", "every program of 2 calls (5 methods, popped stacks of 0-2 labels) + 1 later call, MPLS builder", "quick"),
          _c18("VfC18_nhg_2", "every program of 2 calls (5 methods) + 1 later call, next-hop-group builder", "quick"),
          _c18("VfC18_nh_2", "every program of 2 calls (15 methods incl. encap headers, label stacks) + 1 later call, next-hop builder", "quick"),
          _c18("VfC18_client_3", "every sequence of 3 calls of AddEntry/ReplaceEntry/DeleteEntry (1-2 entries, optional own election id) / UpdateElectionID, on one kept Modify() handle or a fresh one per call, in each redundancy mode, with/without initial id", "quick"),
          _c18("VfC18_ipv4_3", "programs of 3 calls + 1, IPv4 builder", "thorough"),
          _c18("VfC18_ipv6_2", "programs of 2 calls + 1, IPv6 builder", "thorough"),
          _c18("VfC18_label_3", "programs of 3 calls + 1, MPLS builder", "thorough"),
          _c18("VfC18_nhg_3", "programs of 3 calls + 1, group builder", "thorough"),
          _c18("VfC18_nh_3", "programs of 3 calls + 1, next-hop builder", "thorough"),
          _c18("VfC18_client_3", "sequences of 3 queueing calls (as in the quick tier; 4 calls exceed 10^6 paths)", "thorough")],
    assumptions=["proto.Clone is modelled as a deep copy and proto.Equal as typed structural equality of the message graph"],
    level_text="Bounded symbolic execution over every program of L builder calls with symbolic arguments: the emitted message equals an independently built expected message, emitted messages are immune to later builder calls, ids and election-id stamping follow the documented rules.",
    level_note="Trusted: go/ssa, gosym (proto.Clone/Equal stubs), z3.")

CHECKS["C15"] = dict(
    runs=[dict(pkg="rib/reconciler", harness="VfC15_reconcile_q", load=["rib/reconciler"], reach=["end", "built"], thorough=dict(skip=True), opts=dict(only=["C15:"]),
               bounds="intended and target RIB each built canonically with symbolic contents (1 next-hop, 1 group <=1 member, 1 IPv4/MPLS entry in either of two instances, all optional), optionally a third instance only the target has (one next-hop); Reconcile, operations applied to the target's real RIB in the documented order, result compared with the intended reference; second Reconcile must be empty; then a tear-down Reconcile towards an empty intended RIB whose deletes must all succeed; symbolic id base"),
          dict(pkg="rib/reconciler", harness="VfC15_reconcile_qx", load=["rib/reconciler"], reach=["end", "built"], opts=dict(only=["C15:"]),
               bounds="cross-instance references: on each side next-hop 1 in both instances, an optional group (symbolic id) in each instance, one optional IPv4 entry (symbolic prefix / group id) in either instance whose group instance is unset (its own instance) or explicit (either instance); Reconcile, apply in order, compare, second Reconcile empty"),
          dict(pkg="rib/reconciler", harness="VfC15_reconcile_qb", load=["rib/reconciler"], reach=["end", "built"], opts=dict(only=["C15:"]),
               bounds="backup groups: one next-hop and up to two groups (ids 1, 2) on each side, either naming the other as its backup (chains and cycles, 7 x 7 shapes); EVERY iteration order of the maps the reconciler walks (the order inside Delete.NHG etc. is not documented); tear-down round towards the empty RIB in one map order"),
          dict(pkg="rib/reconciler", harness="VfC15_reconcile_qbt", load=["rib/reconciler"], reach=["end", "built"], quick=dict(skip=True), opts=dict(only=["C15:"]),
               bounds="as reconcile_qb, and the tear-down round also in every map order (53 504 paths)"),
          dict(pkg="rib/reconciler", harness="VfC15_reconcile_qw", load=["rib/reconciler"], reach=["end", "built"], opts=dict(only=["C15:"]),
               bounds="weighted groups: 1 next-hop + 1 group (<=1 member with an optional weight of any value) per side; Reconcile, apply, compare, second Reconcile empty, then a tear-down Reconcile towards an empty intended RIB whose deletes must all succeed"),
          dict(pkg="rib/reconciler", harness="VfC15_reconcile_t", load=["rib/reconciler"], reach=["end", "built"], quick=dict(skip=True), opts=dict(only=["C15:"]),
               bounds="as reconcile_q with 2 next-hops per side (swaps of the group's next-hop), IPv4 entries")],
    assumptions=["LocalRIB targets only; RemoteRIB (gRPC Get + FromGetResponses) is covered by C07's FromGetResponses check, the transport is outside", "ConcreteXXXProto / candidateRIB / MergeStructInto / DeepCopy / DeepEqual are the models and structural stubs of DESIGN.md section 4"],
    level_text="Bounded symbolic execution of diff/Reconcile over two symbolic RIBs, followed by application of the emitted operations to the real target RIB: success of every operation, convergence to the intended contents and id allocation are decided for all symbolic contents.",
    level_note=_RIBNOTE)

CHECKS["C10"] = dict(
    runs=[dict(pkg="server", harness="VfC10_modifyCut", reach=["end", "cut-done", "probe-done", "with-standby"], validate=2,
               bounds="real Server.Modify (3 goroutines), optionally with a standby session attached that announced ANY lower 128-bit id before, on a scripted session [params, election, ADD, batch of 2 ADDs] cut off after 0-4 messages by EOF / Canceled / transport error (optionally with every later Send failing too), or whose Send fails from response 0-4 on (incl. between the results of one request); then a probe: new session (negotiate, higher id, ADD), Get, Flush; deterministic schedule"),
          dict(pkg="server", harness="VfC10_getCut", reach=["end", "cut-done", "probe-done"], validate=2,
               bounds="real Server.Get over 3 installed next-hops whose stream fails after 0-3 responses; then the same probe (its ADD writes to the instance the abandoned Get was reading)"),
          dict(pkg="server", harness="VfC10_modifyCutSched", reach=["end"], validate=0, replay_attempts=20, opts=dict(unwind=16),
               bounds="as modifyCut with up to 2 pre-emptive context switches at synchronisation points (channel operations, mutexes, atomics, select)"),
          dict(pkg="server", harness="VfC10_getCutSched", reach=["end"], validate=0, replay_attempts=20, opts=dict(unwind=16),
               bounds="as getCut with up to 2 pre-emptive context switches")],
    assumptions=["transport faults are modelled as errors returned by the stream's Recv/Send at the chosen index", "goroutines run as coroutines switching only at synchronisation operations (sound for data-race-free code; C11 checks the lock discipline)",
                 "a goroutine left blocked without holding a lock is counted but is not a violation of the property as stated"],
    level_text="Bounded symbolic execution of the real RPC handlers with goroutines, channels and mutexes under the engine's scheduler: every cut point / termination mode is a symbolic choice; a wedge shows up as a deadlock of the probe, which is replayed natively under a watchdog.",
    level_note="Trusted: go/ssa, gosym scheduler (sync-point granularity, context bound stated per run), z3, rib models.")

CHECKS["C14"] = dict(
    runs=[dict(pkg="client", harness="VfC14_fault", reach=["end", "reset-done", "done-signalled"], validate=2, opts=dict(unwind=40),
               bounds="real Connect (sender + receiver goroutines) against a scripted conformant stream with ONE fault: Send failing from index 0-3 (immediately, or slowly while the application keeps queueing) or Recv failing after 0-3 responses, 3 status classes; a burst of 8 requests (> buffer 5 + in flight) queued after StartSending or BEFORE it (flushed by StartSending); then AwaitConverged, Done, Close (optional), Reset, reconnect on a healthy stream, one more exchange; deterministic schedule"),
          dict(pkg="client", harness="VfC14_faultSched", reach=["end"], quick=dict(skip=True), validate=0, replay_attempts=10, opts=dict(unwind=40),
               bounds="as fault with one pre-emptive context switch at any synchronisation point"),
          dict(pkg="client", harness="VfC14_endedThenQueue", reach=["end", "queued"], validate=2, opts=dict(unwind=40, timeout_s=600),
               bounds="the server ends the RPC with an OK status while the client is idle (after the handshake and 0-2 answered operations); then 3 further requests are queued: the calls return, the terminated stream (Send returns io.EOF) is recorded as an error, AwaitConverged returns it, Close returns"),
          dict(pkg="client", harness="VfC14_resetCloseError", reach=["end", "reset-done"], validate=2, opts=dict(unwind=40),
               bounds="a fault that arrives while Reset is running: the server answers Reset's own half-close with one of 3 non-OK statuses, after 0-2 answered operations; after Reset no error is left and an exchange on a fresh stream converges"),
          dict(pkg="client", harness="VfC14_idleFault", reach=["end", "idle", "done-signalled"], validate=2, opts=dict(unwind=40),
               bounds="a fault when nothing is outstanding: after the handshake and 0-2 answered operations the receive side fails with one of 3 status classes; the error is recorded, AwaitConverged returns it (not convergence), Done is signalled, Close returns"),
          dict(pkg="client", harness="VfC14_twoFaults", reach=["end"], validate=2, opts=dict(unwind=60),
               bounds="a sequence of two faults (each: kind, index, status class symbolic), with Reset + reconnect in between and a healthy exchange at the end")],
    assumptions=["the gRPC stream is a scripted object: a failed Send also ends the receive side, CloseSend ends the stream with EOF", "goroutines run as coroutines switching at synchronisation operations only"],
    level_text="Bounded symbolic execution of the client's connection machinery under the engine's scheduler with the fault position/kind symbolic; a blocked call shows up as a failed assertion or as a deadlock, replayed natively under a watchdog.",
    level_note="Trusted: go/ssa, gosym scheduler (context bound per run), z3.")

CHECKS["C11"] = dict(
    runs=[dict(pkg="server", harness="VfSelf_strOrder", reach=["end"], validate=1, bounds="engine self-test: < <= > >= on symbolic strings, sort.Strings and sort.SearchStrings form one consistent strict total order per path (compared with the native run on the solver's inputs)"),
          dict(pkg="server", harness="VfSelf_atomicPointer", reach=["end"], validate=1, bounds="engine self-test: sync/atomic.Pointer[T] Load / Store / CompareAndSwap / Swap keep what was stored (compared with the native run)"),
          dict(pkg="server", harness="VfC11_lockset", reach=["end"], lockset=True, validate=0,
               bounds="roles: two sessions (connect, negotiate, announce a symbolic id, operate with a symbolic operation, disconnect), a Get(ALL) reader, a Flush caller (no id / override / symbolic id), all from one shared server state with two instances; every path of every handler; accesses to objects of the shared state are logged with the held lock set"),
          dict(pkg="server", harness="VfC11_concurrentElections", reach=["end"], validate=0, replay_attempts=3, opts=dict(unwind=16),
               bounds="two sessions announce arbitrary non-zero 128-bit ids concurrently (real runElection, two goroutines); every schedule with up to 2 pre-emptive context switches at synchronisation points; quiescent election state checked")],
    assumptions=["PARTIAL: decided here is (a) the lock discipline (Eraser condition) over all handler paths, which implies data-race freedom of the shared server/RIB state for the considered roles, plus absence of panics on those paths, and (b) the quiescent election state after two concurrent announcements under a context-bounded scheduler; liveness under the real scheduler, atomicity of other check-then-act sequences, and quiescent RIB equivalence of overlapping sessions are OUTSIDE (DESIGN.md C11)",
                 "a lock-discipline finding is reported as a violation only when `go test -race` on TestVfRaceStress (4 sessions, 2 readers, 2 flushers, real goroutines) reports a data race whose stacks contain the two functions; otherwise it is listed as unconfirmed and the check is inconclusive",
                 "objects created by a handler itself (not part of the shared state before the roles start) are not tracked"],
    level_text="Lock-set analysis on top of bounded symbolic execution: the schedule quantifier is discharged by checking, over all symbolic paths of each handler, that conflicting accesses of different roles share a mutex; confirmation by the Go race detector.",
    level_note="Trusted: go/ssa, gosym (access log, mutex model), z3, the Go race detector for confirmation.")

_C19I = ["context", "go.uber.org/atomic"]
CHECKS["C19"] = dict(
    runs=[dict(pkg="compliance", harness="VfC19_each", reach=["end"], initpkg=_C19I, validate=3, watchdog_s=100, opts=dict(maxsleeps=4000, maxsteps=40000000),
               bounds="every one of the 79 tests of compliance.TestSuite, alone, on a fresh conformant server (the real server.Server incl. its three Modify goroutines, the real client incl. sender/receiver goroutines, fluent, chk; joined by in-memory streams), with the suite's starting election id ANY value in [1, 2^62), the default instance's name ANY string and the VRF name ANY other string (both different from the suite's 'nonexistent' name; the server's RIB is built with those names); shuffles (rand.Shuffle) are symbolic permutations; deterministic schedule"),
          dict(pkg="compliance", harness="VfC19_pairs", reach=["end", "different-server-mode"], initpkg=_C19I, validate=2, watchdog_s=100, opts=dict(maxsleeps=8000, maxsteps=80000000),
               bounds="every ORDERED PAIR of tests (79 x 79, pairs needing different server modes excluded) back to back on ONE long-lived server, same symbolic configuration: both verdicts as specified (order dependence between two tests; longer permutations are outside)"),
          dict(pkg="compliance", harness="VfC19_suite", reach=["end"], initpkg=_C19I, validate=0, watchdog_s=400, opts=dict(maxsleeps=400000, maxsteps=2000000000),
               bounds="the WHOLE suite (79 tests) test after test on ONE long-lived server (one per server mode), in file order and in reverse file order, same symbolic configuration"),
          dict(pkg="compliance", harness="VfC19_suiteRot", reach=["end"], quick=dict(skip=True), initpkg=_C19I, validate=0, watchdog_s=400, opts=dict(maxsleeps=400000, maxsteps=2000000000),
               bounds="as suite, in every rotation of the file order, forwards and backwards (158 of the 79! permutations)"),
          dict(pkg="compliance", harness="VfC19_faulty", reach=["end", "judged", "not-written-for-this-requirement"], initpkg=_C19I, validate=0, watchdog_s=100, opts=dict(maxsleeps=4000, maxsteps=40000000),
               bounds="catalogue of 9 single-requirement faulty servers (the reference server behind a message filter: no FIB acks; DELETE of an absent entry fails; Get leaves out the last entry; Flush answers OK without flushing; election id reported with a wrong high word; repeated SessionParameters acknowledged; operations with a stale / unannounced election id programmed; Flush of one instance flushes all; every session is told its own last id instead of the highest one) x every test written for the broken requirement (by the suite's own Requires* flags and test documentation): the test must FAIL, for every symbolic configuration; timeouts of the client are modelled by virtual time")],
    assumptions=["PARTIAL: decided are (a) every test alone and every ordered pair of tests on one server, for every starting election id in [1, 2^62) and every pair of instance names, (b) the 9-member fault catalogue; permutations of three and more tests other than the file order, its reverse and (thorough) their rotations, other faults, and the real gRPC transport / TLS / device wrapper are OUTSIDE",
                 "client and server are joined by in-memory streams (channels) written in the harness: a Send after the handler returned yields io.EOF and Recv the handler's status, as gRPC does; Get runs the handler to completion before the client reads",
                 "context.WithTimeout / WithCancel are modelled on the engine's virtual clock: time advances by time.Sleep and jumps to the next deadline only when no goroutine can make progress otherwise (the suite's one-minute timeouts are long relative to processing)",
                 "one schedule per path (deterministic, switching at synchronisation points); scheduling is C10/C11/C14's subject",
                 "a test that skips itself (FlushOfAllNIs: TODO + t.Skip) gives no verdict",
                 "rib conversion models as in C01/C07 (next-hop addresses and label stacks are inside the model)"],
    level_text="Bounded symbolic execution of whole compliance tests - fluent client, real client goroutines, real server handlers, real RIB, chk helpers - against the reference server and against a catalogue of wrapped faulty servers, with the suite configuration (starting election id, VRF name) and shuffles symbolic; the verdict of every test is an SMT-decided assertion.",
    level_note="Trusted: go/ssa, gosym (scheduler, virtual clock, context / rand / sort / net.IP intercepts), z3, rib models (validated by TestVfModelAgreement), the in-memory connection and the fault filters in harness/compliance/vf_c19.go.",
    design_ref="DESIGN.md §0.8 (C19)")

NOT_APPLICABLE = {}

FIX_COMMITS = []

# checks whose harnesses execute the Go models of the reflection pipeline: the native model-agreement test is part of the check
for _p in ("C01", "C02", "C03", "C04", "C06", "C07", "C08", "C09", "C10", "C11", "C12", "C15", "C16", "C19"):
    CHECKS[_p]["models"] = True
