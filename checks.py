# Per-property check configuration: which harnesses, with which bounds, per tier.
COMMON_ASSUMPTIONS = [
    "trusted base: go/ssa construction (x/tools v0.50.0), the gosym interpreter, z3 4.8.12, the stub contracts listed under coverage.stubs_hit",
    "integers are 64/32/8-bit bit-vectors with wrap-around; strings are an equality-only sort",
    "a check passes only if every path ended normally or by an infeasible assumption; unsupported/unwinding/unknown outcomes make the run inconclusive (exit 2)",
]

CHECKS = {
    "RIBQ": dict(runs=[dict(pkg="rib", harness="VfRIB_StepQuick", reach=["end","acked","failed","held","error","pre-built"], opts=dict(budget_s=60))], level_text="", level_note=""),
    "SMOKE": dict(runs=[dict(pkg="rib", harness="VfSmoke_AddNH", reach=["end","zero","installed"])], level_text="", level_note=""),
    "C05": dict(
        runs=[
            dict(pkg="server", harness="VfC05_isNewMaster", bounds="all 2^256 (candidate, existing) id pairs; no loops"),
        ],
        assumptions=[],
        level_text="Bounded symbolic execution of the real election code: every 128-bit id pair / every state of the bounded session table is covered by SMT queries, not sampled.",
        level_note="Trusted: go/ssa, gosym, z3; session table bounded (see evidence.bounds).",
    ),
}

NOT_APPLICABLE = {
    "C19": "whole compliance-suite runs over in-memory gRPC against wrapped servers in every order: a whole-program execution through gRPC, testing and reflection; no bounded symbolic encoding within reach (DESIGN.md §8)",
}

FIX_COMMITS = []
