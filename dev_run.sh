#!/bin/bash
# usage: dev_run.sh <pkgdir> <harness> [extra gosym args]  -- rebuilds the overlay and runs one harness (development aid)
pkg=$1; h=$2; shift 2
cd /verif
python3 - <<PY
import importlib.machinery, importlib.util, os
l=importlib.machinery.SourceFileLoader("chk","/verif/check"); m=importlib.util.module_from_spec(importlib.util.spec_from_loader("chk",l)); l.exec_module(m)
os.makedirs("/verif/out/DEV",exist_ok=True); m.ensure_engine(); m.build_overlay("/verif/out/DEV",False)
PY
calib=""; [ -f out/C01/calib.json ] && calib="-calib out/C01/calib.json"
./bin/gosym -repo /repo -overlay out/DEV/overlay.json -redirects harness/redirects.json -known known_findings.json $calib -pkg github.com/openconfig/gribigo/$pkg -harness github.com/openconfig/gribigo/$pkg.$h -out out/DEV/engine-$h.json "$@" 2>&1 | grep -E "paths=|assert |rror|panic|unsupported" | cut -c1-300 | head -${HEADN:-60}
