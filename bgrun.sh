#!/bin/bash
# usage: bgrun.sh <property> <tier> [budget_s]  -- run from a vp snapshot (cwd = snapshot of /verif)
set -e
export PATH=/opt/veriftools/go1.26.8/bin:$PATH GOFLAGS=-mod=mod GOPROXY=off GOTOOLCHAIN=local GOSUMDB=off
(cd engine && go build -o ../bin/gosym .)
if [ -n "$3" ]; then sed -i "s/budget_s=[0-9]*/budget_s=$3/" checks.py; fi
./check "$1" "$2" 2>&1 | grep -v "   assert " | tail -40
