package main

// Values of the symbolic interpreter.  Adapted from golang.org/x/tools/go/ssa/interp
// (BSD licence): concrete Go values as in interp, plus *Sym for symbolic scalars,
// *smap for maps (association lists, symbolic keys) and *schan for channels.

import (
	"bytes"
	"fmt"
	"go/types"
	"io"
	"strings"

	"golang.org/x/tools/go/ssa"
)

type value any

type tuple []value

type array []value

type iface struct {
	t types.Type // never an "untyped" type
	v value
}

type structure []value

type iter interface {
	next() tuple
}

type closure struct {
	Fn  *ssa.Function
	Env []value
}

type bad struct{}

// Sym is a symbolic scalar: Bool, bit-vector (any Go integer type) or Str.
type Sym struct {
	T *Term
}

// opaque is an engine-level object standing for a library value the engine
// does not interpret (an error built by fmt.Errorf, a *status.Status, ...).
type opaque struct {
	kind   string // "error", "status", "time", ...
	site   string // allocation site / description
	code   value  // status code (uint32 or *Sym) for kind "status"/"statuserr"
	detail []value
	msg    value
}

func sameType(x, y types.Type) bool {
	if x == nil {
		return y == nil
	}
	return y != nil && types.Identical(x, y)
}

// load/store copy aggregates by value.
func load(T types.Type, addr *value) value {
	switch T := T.Underlying().(type) {
	case *types.Struct:
		v, ok := (*addr).(structure)
		if !ok {
			return *addr // opaque stand-in stored in a struct-typed cell
		}
		a := make(structure, len(v))
		for i := range a {
			a[i] = load(T.Field(i).Type(), &v[i])
		}
		return a
	case *types.Array:
		v := (*addr).(array)
		a := make(array, len(v))
		for i := range a {
			a[i] = load(T.Elem(), &v[i])
		}
		return a
	default:
		return *addr
	}
}

func store(T types.Type, addr *value, v value) {
	switch T := T.Underlying().(type) {
	case *types.Struct:
		lhs, ok1 := (*addr).(structure)
		rhs, ok2 := v.(structure)
		if !ok1 || !ok2 {
			*addr = v
			return
		}
		for i := range lhs {
			store(T.Field(i).Type(), &lhs[i], rhs[i])
		}
	case *types.Array:
		lhs := (*addr).(array)
		rhs := v.(array)
		for i := range lhs {
			store(T.Elem(), &lhs[i], rhs[i])
		}
	default:
		*addr = v
	}
}

func writeValue(buf *bytes.Buffer, v value, depth int) {
	if depth > 6 {
		buf.WriteString("…")
		return
	}
	switch v := v.(type) {
	case nil, bool, int, int8, int16, int32, int64, uint, uint8, uint16, uint32, uint64, uintptr, float32, float64, complex64, complex128:
		fmt.Fprintf(buf, "%v", v)
	case string:
		fmt.Fprintf(buf, "%q", v)
	case *Sym:
		buf.WriteString("<sym>")
	case *opaque:
		fmt.Fprintf(buf, "<%s %s>", v.kind, v.site)
	case *smap:
		buf.WriteString("map[")
		if v != nil {
			for i, e := range v.entries {
				if i > 0 {
					buf.WriteString(" ")
				}
				writeValue(buf, e.key, depth+1)
				buf.WriteString(":")
				writeValue(buf, e.val, depth+1)
			}
		}
		buf.WriteString("]")
	case *schan:
		fmt.Fprintf(buf, "chan%p", v)
	case *value:
		if v == nil {
			buf.WriteString("<nil>")
		} else {
			buf.WriteString("&")
			writeValue(buf, *v, depth+1)
		}
	case iface:
		if v.t == nil {
			buf.WriteString("<nil iface>")
			return
		}
		fmt.Fprintf(buf, "(%s, ", v.t)
		writeValue(buf, v.v, depth+1)
		buf.WriteString(")")
	case structure:
		buf.WriteString("{")
		for i, e := range v {
			if i > 0 {
				buf.WriteString(" ")
			}
			writeValue(buf, e, depth+1)
		}
		buf.WriteString("}")
	case array:
		buf.WriteString("[")
		for i, e := range v {
			if i > 0 {
				buf.WriteString(" ")
			}
			writeValue(buf, e, depth+1)
		}
		buf.WriteString("]")
	case []value:
		buf.WriteString("[")
		for i, e := range v {
			if i > 0 {
				buf.WriteString(" ")
			}
			writeValue(buf, e, depth+1)
		}
		buf.WriteString("]")
	case *ssa.Function, *ssa.Builtin, *closure:
		fmt.Fprintf(buf, "%p", v)
	case tuple:
		buf.WriteString("(")
		for i, e := range v {
			if i > 0 {
				buf.WriteString(", ")
			}
			writeValue(buf, e, depth+1)
		}
		buf.WriteString(")")
	default:
		fmt.Fprintf(buf, "<%T>", v)
	}
}

func toString(v value) string {
	var b bytes.Buffer
	writeValue(&b, v, 0)
	return b.String()
}

type stringIter struct {
	*strings.Reader
	i int
}

func (it *stringIter) next() tuple {
	okv := make(tuple, 3)
	ch, n, err := it.ReadRune()
	ok := err != io.EOF
	okv[0] = ok
	if ok {
		okv[1] = it.i
		okv[2] = ch
	}
	it.i += n
	return okv
}
