package main

// Symbolic extensions of the interpreter's operators.

import (
	"fmt"
	"go/token"
	"go/types"
	"math/big"
	"strings"

	"golang.org/x/tools/go/ssa"
)

func basicOf(t types.Type) *types.Basic {
	b, _ := t.Underlying().(*types.Basic)
	return b
}

// intInfo returns width and signedness of an integer type.
func intInfo(t types.Type) (w int, signed bool, ok bool) {
	b := basicOf(t)
	if b == nil {
		return 0, false, false
	}
	switch b.Kind() {
	case types.Int, types.Int64, types.UntypedInt:
		return 64, true, true
	case types.Int8:
		return 8, true, true
	case types.Int16:
		return 16, true, true
	case types.Int32, types.UntypedRune:
		return 32, true, true
	case types.Uint, types.Uint64, types.Uintptr:
		return 64, false, true
	case types.Uint8:
		return 8, false, true
	case types.Uint16:
		return 16, false, true
	case types.Uint32:
		return 32, false, true
	}
	return 0, false, false
}

// toTerm lifts a concrete scalar to a constant term.
func (in *Interp) toTerm(v value) *Term {
	switch x := v.(type) {
	case *Sym:
		return x.T
	case bool:
		return in.ts.Bool(x)
	case string:
		return in.ts.Str(x)
	case int:
		return in.ts.BV(uint64(x), 64)
	case int8:
		return in.ts.BV(uint64(x), 8)
	case int16:
		return in.ts.BV(uint64(x), 16)
	case int32:
		return in.ts.BV(uint64(x), 32)
	case int64:
		return in.ts.BV(uint64(x), 64)
	case uint:
		return in.ts.BV(uint64(x), 64)
	case uint8:
		return in.ts.BV(uint64(x), 8)
	case uint16:
		return in.ts.BV(uint64(x), 16)
	case uint32:
		return in.ts.BV(uint64(x), 32)
	case uint64:
		return in.ts.BV(x, 64)
	case uintptr:
		return in.ts.BV(uint64(x), 64)
	}
	panic(pathAbort{kind: "unsupported", msg: fmt.Sprintf("toTerm(%T)", v)})
}

// fromConst turns a constant term back into a concrete value of type t.
func fromConst(t types.Type, c *Term) value {
	b := basicOf(t)
	switch c.sort.K {
	case SBool:
		return c.val.Sign() != 0
	case SBV:
		u := c.val.Uint64()
		if b == nil {
			return u
		}
		switch b.Kind() {
		case types.Int, types.UntypedInt:
			return int(sext(u, 64))
		case types.Int8:
			return int8(u)
		case types.Int16:
			return int16(u)
		case types.Int32, types.UntypedRune:
			return int32(u)
		case types.Int64:
			return int64(u)
		case types.Uint:
			return uint(u)
		case types.Uint8:
			return uint8(u)
		case types.Uint16:
			return uint16(u)
		case types.Uint32:
			return uint32(u)
		case types.Uint64:
			return u
		case types.Uintptr:
			return uintptr(u)
		}
	}
	return nil
}

// mkSym wraps a term, folding constants back to concrete values of type t.
func (in *Interp) mkSym(t types.Type, tm *Term) value {
	if tm.IsConst() {
		if tm.sort.K == SStr {
			i := int(tm.val.Int64())
			if i >= 0 && i < len(in.ts.strList) {
				return in.ts.strList[i]
			}
		} else if v := fromConst(t, tm); v != nil {
			return v
		}
	}
	return &Sym{T: tm}
}

func isSym(v value) bool { _, ok := v.(*Sym); return ok }

func (in *Interp) symBinop(op token.Token, t types.Type, x, y value) (value, bool) {
	if !isSym(x) && !isSym(y) {
		return nil, false
	}
	ts := in.ts
	switch op {
	case token.EQL, token.NEQ:
		return nil, false // handled by eqV
	}
	b := basicOf(t)
	if b != nil && b.Info()&types.IsString != 0 {
		switch op {
		case token.LSS:
			return in.strLess(x, y), true
		case token.GTR:
			return in.strLess(y, x), true
		case token.LEQ:
			return !in.strLess(y, x), true
		case token.GEQ:
			return !in.strLess(x, y), true
		}
		in.unsupported("string operator %s on symbolic string", op)
	}
	if b != nil && b.Kind() == types.Bool || b != nil && b.Kind() == types.UntypedBool {
		in.unsupported("bool binop %s", op)
	}
	w, signed, ok := intInfo(t)
	if !ok {
		in.unsupported("symbolic binop %s on %s", op, t)
	}
	a := ts.Resize(in.toTerm(x), w, signed)
	var c *Term
	switch op {
	case token.SHL, token.SHR:
		// shift count has its own (unsigned, or non-negative) type
		cy := in.toTerm(y)
		c = ts.Resize(cy, w, false)
		if cy.sort.W > w {
			// counts >= 2^w collapse to "large"
			big := ts.Not(ts.Eq(ts.Resize(cy, w, false), ts.Resize(ts.Resize(cy, w, false), cy.sort.W, false)))
			_ = big
			hi := ts.BVOp("bvult", ts.BV(uint64(w), cy.sort.W), cy)
			c = ts.Ite(hi, ts.BV(uint64(w), w), c)
		}
	default:
		c = ts.Resize(in.toTerm(y), w, signed)
	}
	var r *Term
	switch op {
	case token.ADD:
		r = ts.BVOp("bvadd", a, c)
	case token.SUB:
		r = ts.BVOp("bvsub", a, c)
	case token.MUL:
		r = ts.BVOp("bvmul", a, c)
	case token.QUO, token.REM:
		// division by zero panics in Go
		if in.decide(ts.Eq(c, ts.BV(0, w))) {
			tpanic("integer divide by zero")
		}
		name := map[bool]map[token.Token]string{true: {token.QUO: "bvsdiv", token.REM: "bvsrem"}, false: {token.QUO: "bvudiv", token.REM: "bvurem"}}[signed][op]
		r = ts.mk(name, bvSort(w), []*Term{a, c}, "", nil)
		if a.IsConst() && c.IsConst() && !signed {
			r, _ = ts.bvConst2(name, a, c, false)
		}
	case token.AND:
		r = ts.BVOp("bvand", a, c)
	case token.OR:
		r = ts.BVOp("bvor", a, c)
	case token.XOR:
		r = ts.BVOp("bvxor", a, c)
	case token.AND_NOT:
		r = ts.BVOp("bvand", a, ts.BVNot(c))
	case token.SHL:
		r = ts.BVOp("bvshl", a, c)
	case token.SHR:
		if signed {
			r = ts.mk("bvashr", bvSort(w), []*Term{a, c}, "", nil)
		} else {
			r = ts.BVOp("bvlshr", a, c)
		}
	case token.LSS:
		return in.mkSym(types.Typ[types.Bool], ts.BVOp(cmpOp("lt", signed), a, c)), true
	case token.LEQ:
		return in.mkSym(types.Typ[types.Bool], ts.BVOp(cmpOp("le", signed), a, c)), true
	case token.GTR:
		return in.mkSym(types.Typ[types.Bool], ts.BVOp(cmpOp("lt", signed), c, a)), true
	case token.GEQ:
		return in.mkSym(types.Typ[types.Bool], ts.BVOp(cmpOp("le", signed), c, a)), true
	default:
		in.unsupported("symbolic binop %s", op)
	}
	return in.mkSym(t, r), true
}

func cmpOp(k string, signed bool) string {
	if signed {
		return "bvs" + k
	}
	return "bvu" + k
}

func (in *Interp) notV(v value) value {
	switch v := v.(type) {
	case bool:
		return !v
	case *Sym:
		return in.mkSym(types.Typ[types.Bool], in.ts.Not(v.T))
	}
	panic(fmt.Sprintf("notV(%T)", v))
}

func (in *Interp) andV(a, b value) value {
	if x, ok := a.(bool); ok {
		if !x {
			return false
		}
		return b
	}
	if y, ok := b.(bool); ok {
		if !y {
			return false
		}
		return a
	}
	return in.mkSym(types.Typ[types.Bool], in.ts.And(a.(*Sym).T, b.(*Sym).T))
}

func (in *Interp) orV(a, b value) value {
	return in.notV(in.andV(in.notV(a), in.notV(b)))
}

// eqV is == for any comparable Go type, producing bool or *Sym.
func (in *Interp) eqV(t types.Type, x, y value) value {
	switch t.Underlying().(type) {
	case *types.Map, *types.Signature, *types.Slice:
		// comparison against nil only
		return isNilRef(x) == isNilRef(y) && (isNilRef(x) || sameRef(x, y))
	}
	return in.equalsV(t, x, y)
}

func isNilRef(x value) bool {
	switch x := x.(type) {
	case *smap:
		return x == nil
	case []value:
		return x == nil
	case *ssa.Function:
		return x == nil
	case *closure:
		return x == nil
	case *nativeFn:
		return x == nil
	case nil:
		return true
	}
	return false
}

func sameRef(x, y value) bool { return false }

func (in *Interp) equalsV(t types.Type, x, y value) value {
	if isSym(x) || isSym(y) {
		tx, ty := in.toTerm(x), in.toTerm(y)
		if tx.sort != ty.sort {
			panic(fmt.Sprintf("equalsV sort mismatch for %s: %v %v", t, tx.sort, ty.sort))
		}
		return in.mkSym(types.Typ[types.Bool], in.ts.Eq(tx, ty))
	}
	switch x := x.(type) {
	case bool:
		return x == y.(bool)
	case int:
		return x == y.(int)
	case int8:
		return x == y.(int8)
	case int16:
		return x == y.(int16)
	case int32:
		return x == y.(int32)
	case int64:
		return x == y.(int64)
	case uint:
		return x == y.(uint)
	case uint8:
		return x == y.(uint8)
	case uint16:
		return x == y.(uint16)
	case uint32:
		return x == y.(uint32)
	case uint64:
		return x == y.(uint64)
	case uintptr:
		return x == y.(uintptr)
	case float32:
		return x == y.(float32)
	case float64:
		return x == y.(float64)
	case string:
		return x == y.(string)
	case *value:
		return x == y.(*value)
	case *schan:
		return x == y.(*schan)
	case *opaque:
		yo, ok := y.(*opaque)
		return ok && x == yo
	case structure:
		ys := y.(structure)
		tStruct := t.Underlying().(*types.Struct)
		var acc value = true
		for i, n := 0, tStruct.NumFields(); i < n; i++ {
			f := tStruct.Field(i)
			if f.Name() == "_" {
				continue
			}
			acc = in.andV(acc, in.equalsV(f.Type(), x[i], ys[i]))
			if b, ok := acc.(bool); ok && !b {
				return false
			}
		}
		return acc
	case array:
		ya := y.(array)
		tElt := t.Underlying().(*types.Array).Elem()
		var acc value = true
		for i := range x {
			acc = in.andV(acc, in.equalsV(tElt, x[i], ya[i]))
			if b, ok := acc.(bool); ok && !b {
				return false
			}
		}
		return acc
	case iface:
		yi := y.(iface)
		if !sameType(x.t, yi.t) {
			return false
		}
		if x.t == nil {
			return true
		}
		return in.equalsV(x.t, x.v, yi.v)
	case *ssa.Function:
		yf, ok := y.(*ssa.Function)
		return ok && x == yf
	case *closure:
		yc, ok := y.(*closure)
		return ok && x == yc
	case nil:
		return y == nil
	}
	panic(fmt.Sprintf("comparing uncomparable type %s (%T)", t, x))
}

func (in *Interp) symConv(tDst, tSrc types.Type, x *Sym) value {
	wd, _, okd := intInfo(tDst)
	_, ss, oks := intInfo(tSrc)
	if okd && oks && x.T.sort.K == SBV {
		return in.mkSym(tDst, in.ts.Resize(x.T, wd, ss))
	}
	bd, bs := basicOf(tDst), basicOf(tSrc)
	if bd != nil && bs != nil && bd.Info()&types.IsString != 0 && bs.Info()&types.IsString != 0 {
		return x
	}
	if bd != nil && bs != nil && bd.Kind() == types.Bool && x.T.sort.K == SBool {
		return x
	}
	in.unsupported("conversion of symbolic %s to %s", tSrc, tDst)
	return nil
}

// concretize picks the feasible concrete value of a symbolic integer by
// asking the solver for a model value and forking on equality with it.
func (in *Interp) concretize(x *Sym) int64 {
	if x.T.sort.K != SBV {
		in.unsupported("concretize of non-integer")
	}
	for tries := 0; tries < in.w.cfg.Unwind; tries++ {
		v, ok := in.modelValue(x.T)
		if !ok {
			panic(pathAbort{kind: "solver-unknown", msg: "concretize"})
		}
		c := in.ts.BV(v.Uint64(), x.T.sort.W)
		if in.decide(in.ts.Eq(x.T, c)) {
			return sext(v.Uint64(), x.T.sort.W)
		}
	}
	panic(pathAbort{kind: "unwinding", msg: "too many values for a concretized symbolic integer"})
}

func (in *Interp) unop(fr *frame, instr *ssa.UnOp, x value) value {
	switch instr.Op {
	case token.ARROW:
		return in.chanRecv(fr.g, x, instr.CommaOk, instr.X.Type().Underlying().(*types.Chan).Elem())
	case token.MUL:
		p := derefPtr(x, "load")
		in.noteAccess(fr, p, false)
		return load(mustDeref(instr.X.Type()), p)
	case token.NOT:
		return in.notV(x)
	case token.SUB:
		if s, ok := x.(*Sym); ok {
			return in.mkSym(instr.Type(), in.ts.BVNeg(s.T))
		}
		return in.binop(token.SUB, instr.Type(), zero(instr.Type().Underlying()), x)
	case token.XOR:
		if s, ok := x.(*Sym); ok {
			return in.mkSym(instr.Type(), in.ts.BVNot(s.T))
		}
		w, _, _ := intInfo(instr.Type())
		return fromConst(instr.Type(), in.ts.BV(^in.toTerm(x).val.Uint64(), w))
	}
	panic(fmt.Sprintf("invalid unary op %s %T", instr.Op, x))
}

func (in *Interp) slice(x, lo, hi, max value) value {
	var Len, Cap int
	switch x := x.(type) {
	case string:
		Len = len(x)
	case []value:
		Len = len(x)
		Cap = cap(x)
	case *value: // *array
		if x == nil {
			tpanic("slice of nil array pointer")
		}
		a := (*x).(array)
		Len = len(a)
		Cap = cap(a)
	case *Sym:
		in.unsupported("slice of symbolic string")
	}
	l := int64(0)
	if lo != nil {
		l = in.asInt64(lo)
	}
	h := int64(Len)
	if hi != nil {
		h = in.asInt64(hi)
	}
	m := int64(Cap)
	if max != nil {
		m = in.asInt64(max)
	}
	switch x := x.(type) {
	case string:
		if l < 0 || h < l || h > int64(Len) {
			tpanic("slice bounds out of range [%d:%d] with length %d", l, h, Len)
		}
		return x[l:h]
	case []value:
		if l < 0 || h < l || m < h || m > int64(Cap) {
			tpanic("slice bounds out of range [%d:%d:%d] with capacity %d", l, h, m, Cap)
		}
		return x[l:h:m]
	case *value:
		a := (*x).(array)
		if l < 0 || h < l || m < h || m > int64(Cap) {
			tpanic("slice bounds out of range [%d:%d:%d] with capacity %d", l, h, m, Cap)
		}
		return []value(a)[l:h:m]
	}
	panic(fmt.Sprintf("slice: unexpected X type: %T", x))
}

func (in *Interp) typeAssert(instr *ssa.TypeAssert, itf iface) value {
	var v value
	err := ""
	if itf.t == nil {
		err = fmt.Sprintf("interface conversion: interface is nil, not %s", instr.AssertedType)
	} else if idst, ok := instr.AssertedType.Underlying().(*types.Interface); ok {
		v = itf
		if o, isOp := itf.v.(*opaque); isOp {
			for i := 0; i < idst.NumMethods(); i++ {
				if !opaqueHasMethod(o, idst.Method(i).Name()) {
					err = fmt.Sprintf("interface conversion: opaque %s lacks %s", o.kind, idst.Method(i).Name())
				}
			}
		} else {
			err = checkInterface(idst, itf)
		}
	} else if types.Identical(itf.t, instr.AssertedType) {
		v = itf.v
	} else {
		err = fmt.Sprintf("interface conversion: interface is %s, not %s", itf.t, instr.AssertedType)
	}
	if err != "" {
		if !instr.CommaOk {
			panic(targetPanic{v: err})
		}
		return tuple{zero(instr.AssertedType), false}
	}
	if instr.CommaOk {
		return tuple{v, true}
	}
	return v
}

func (in *Interp) callBuiltin(caller *frame, fn *ssa.Builtin, args []value) value {
	switch fn.Name() {
	case "append":
		if len(args) == 1 {
			return args[0]
		}
		if s, ok := args[1].(string); ok {
			arg0 := args[0].([]value)
			for i := 0; i < len(s); i++ {
				arg0 = append(arg0, s[i])
			}
			return arg0
		}
		// never alias the host backing array beyond len (Go semantics allow either)
		a0 := args[0].([]value)
		return append(a0[:len(a0):len(a0)], args[1].([]value)...)

	case "copy":
		src := args[1]
		if s, ok := src.(string); ok {
			bs := make([]value, len(s))
			for i := range bs {
				bs[i] = s[i]
			}
			src = bs
		}
		return copy(args[0].([]value), src.([]value))

	case "close":
		in.chanClose(caller.g, args[0])
		return nil

	case "clear":
		if xs, ok := args[0].([]value); ok {
			if st, ok := fn.Type().(*types.Signature).Params().At(0).Type().Underlying().(*types.Slice); ok {
				for i := range xs {
					xs[i] = zero(st.Elem())
				}
				return nil
			}
		}
		in.unsupported("built-in clear of %T", args[0])
		return nil

	case "delete":
		m, ok := args[0].(*smap)
		if !ok {
			panic(fmt.Sprintf("illegal map type: %T", args[0]))
		}
		if m != nil {
			in.noteMapAccess(caller, m, true)
			in.mapDelete(m, args[1])
		}
		return nil

	case "print", "println":
		return nil

	case "len":
		switch x := args[0].(type) {
		case string:
			return len(x)
		case *Sym:
			return in.strLen(x)
		case array:
			return len(x)
		case *value:
			return len((*x).(array))
		case []value:
			return len(x)
		case *smap:
			in.noteMapAccess(caller, x, false)
			return in.mapLen(x)
		case *schan:
			if x == nil {
				return 0
			}
			return len(x.buf)
		default:
			panic(fmt.Sprintf("len: illegal operand: %T", x))
		}

	case "cap":
		switch x := args[0].(type) {
		case array:
			return cap(x)
		case *value:
			return cap((*x).(array))
		case []value:
			return cap(x)
		case *schan:
			if x == nil {
				return 0
			}
			return x.cap
		default:
			panic(fmt.Sprintf("cap: illegal operand: %T", x))
		}

	case "min":
		return foldLeft(min, args)
	case "max":
		return foldLeft(max, args)

	case "panic":
		panic(targetPanic{v: args[0]})

	case "recover":
		return in.doRecover(caller)

	case "ssa:wrapnilchk":
		recv := args[0]
		if recv.(*value) == nil {
			tpanic("value method (%v).%v called using nil pointer", args[1], args[2])
		}
		return recv

	case "ssa:deferstack":
		return &caller.defers
	}
	panic("unknown built-in: " + fn.Name())
}

// strLen models len() of a symbolic string: only emptiness is decided.
func (in *Interp) strLen(x *Sym) value {
	if in.decide(in.ts.Eq(x.T, in.ts.Str(""))) {
		return 0
	}
	// an unknown positive length; callers on paths of interest only compare with 0
	v := in.freshVar("strlen", bvSort(64))
	in.assumeTerm(in.ts.BVOp("bvslt", in.ts.BV(0, 64), v))
	return &Sym{T: v}
}

func (in *Interp) rangeIter(x value) iter {
	switch x := x.(type) {
	case *smap:
		return in.newMapIter(x)
	case string:
		return &stringIter{Reader: strings.NewReader(x)}
	case *Sym:
		in.unsupported("range over symbolic string")
	}
	panic(fmt.Sprintf("cannot range over %T", x))
}

var _ = big.NewInt
