package main

// Persistent SMT solver process; terms are defined once, queries are
// (check-sat-assuming (literals...)), so nothing is ever popped.

import (
	"bufio"
	"fmt"
	"io"
	"math/big"
	"os"
	"os/exec"
	"strings"
	"time"
)

type Solver struct {
	name    string
	cmd     *exec.Cmd
	in      io.WriteCloser
	out     *bufio.Reader
	ts      *TermStore
	defined map[*Term]string // term -> SMT name/text usable as an expression
	open    bool // a (push) scope with the last query is open
	log     io.Writer
	// stats
	Queries, Sat, Unsat, Unknown int
	Time                         time.Duration
	errs                         []string
}

func solverArgv(name string, timeoutMs int) []string {
	switch name {
	case "z3":
		return []string{"z3", "-in", fmt.Sprintf("-t:%d", timeoutMs)}
	case "z3-new":
		return []string{"z3-new", "-in", fmt.Sprintf("-t:%d", timeoutMs)}
	case "cvc5":
		return []string{"cvc5", "--incremental", "--lang=smt2", "--produce-models", fmt.Sprintf("--tlimit-per=%d", timeoutMs)}
	}
	panic("unknown solver " + name)
}

func NewSolver(name string, ts *TermStore, timeoutMs int, logPath string) (*Solver, error) {
	argv := solverArgv(name, timeoutMs)
	cmd := exec.Command(argv[0], argv[1:]...)
	in, err := cmd.StdinPipe()
	if err != nil {
		return nil, err
	}
	outp, err := cmd.StdoutPipe()
	if err != nil {
		return nil, err
	}
	cmd.Stderr = cmd.Stdout
	if err := cmd.Start(); err != nil {
		return nil, err
	}
	s := &Solver{name: name, cmd: cmd, in: in, out: bufio.NewReaderSize(outp, 1<<20), ts: ts,
		defined: map[*Term]string{}}
	if logPath != "" {
		f, err := os.Create(logPath)
		if err == nil {
			s.log = f
		}
	}
	if name == "cvc5" {
		s.send("(set-logic ALL)")
	}
	s.send("(set-option :produce-models true)")
	return s, nil
}

func (s *Solver) Close() {
	if s == nil || s.cmd == nil {
		return
	}
	s.in.Close()
	s.cmd.Process.Kill()
	s.cmd.Wait()
	s.cmd = nil
}

func (s *Solver) send(line string) {
	if s.log != nil {
		io.WriteString(s.log, line+"\n")
	}
	io.WriteString(s.in, line+"\n")
}

// expr returns SMT text denoting t, defining sub-terms as needed.
func (s *Solver) expr(t *Term) string {
	if n, ok := s.defined[t]; ok {
		return n
	}
	var n string
	switch t.op {
	case "var":
		n = smtName(t.name)
		s.send(fmt.Sprintf("(declare-const %s %s)", n, t.sort))
	case "const":
		n = s.ts.constText(t)
	default:
		var sb strings.Builder
		sb.WriteByte('(')
		sb.WriteString(t.op)
		for _, a := range t.args {
			sb.WriteByte(' ')
			sb.WriteString(s.expr(a))
		}
		sb.WriteByte(')')
		n = fmt.Sprintf("t%d", t.id)
		s.send(fmt.Sprintf("(define-fun %s () %s %s)", n, t.sort, sb.String()))
	}
	s.defined[t] = n
	return n
}

type Result int

const (
	RSat Result = iota
	RUnsat
	RUnknown
)

func (r Result) String() string { return [...]string{"sat", "unsat", "unknown"}[r] }

func (s *Solver) readLine() string {
	line, err := s.out.ReadString('\n')
	if err != nil {
		s.errs = append(s.errs, "solver pipe: "+err.Error())
		return "(error \"pipe closed\")"
	}
	return strings.TrimSpace(line)
}

// Check decides satisfiability of the conjunction of lits.  Each query is its
// own (push)...(check-sat) scope, left open so that Values can read the model;
// the scope is closed by the next Check.  Term definitions are emitted at the
// base level before the scope is opened.
func (s *Solver) Check(lits []*Term) Result {
	if s.open {
		s.send("(pop)")
		s.open = false
	}
	texts := make([]string, 0, len(lits))
	for _, l := range lits {
		if l.IsTrue() {
			continue
		}
		if l.IsFalse() {
			return RUnsat
		}
		texts = append(texts, s.expr(l))
	}
	var sb strings.Builder
	sb.WriteString("(push)\n")
	for _, t := range texts {
		sb.WriteString("(assert ")
		sb.WriteString(t)
		sb.WriteString(")\n")
	}
	sb.WriteString("(check-sat)")
	t0 := time.Now()
	s.send(sb.String())
	s.open = true
	res := RUnknown
	for {
		line := s.readLine()
		if line == "" {
			continue
		}
		switch {
		case line == "sat":
			res = RSat
		case line == "unsat":
			res = RUnsat
		case line == "unknown" || strings.HasPrefix(line, "timeout"):
			res = RUnknown
		case strings.HasPrefix(line, "(error"):
			s.errs = append(s.errs, line)
			if strings.Contains(line, "pipe closed") {
				res = RUnknown
				break
			}
			continue // the verdict line still follows (or another error)
		default:
			if strings.Contains(line, "unsupported") || strings.HasPrefix(line, ";") {
				continue
			}
			s.errs = append(s.errs, "unexpected solver output: "+line)
			continue
		}
		break
	}
	s.Time += time.Since(t0)
	s.Queries++
	switch res {
	case RSat:
		s.Sat++
	case RUnsat:
		s.Unsat++
	default:
		s.Unknown++
	}
	if len(s.errs) > 0 && res != RUnknown {
		// any error line makes the answer untrustworthy
		res = RUnknown
	}
	return res
}

// Values returns model values of vars after a sat answer.
func (s *Solver) Values(vars []*Term) map[*Term]*big.Int {
	out := map[*Term]*big.Int{}
	if len(vars) == 0 {
		return out
	}
	var declared []*Term
	for _, v := range vars {
		if _, ok := s.defined[v]; ok {
			declared = append(declared, v)
		}
	}
	vars = declared
	if len(vars) == 0 {
		return out
	}
	var sb strings.Builder
	sb.WriteString("(get-value (")
	for _, v := range vars {
		sb.WriteString(s.expr(v))
		sb.WriteByte(' ')
	}
	sb.WriteString("))")
	s.send(sb.String())
	// read a balanced s-expression
	var text strings.Builder
	depth, started := 0, false
	inBar := false
	for {
		line := s.readLine()
		text.WriteString(line)
		text.WriteByte(' ')
		for _, c := range line {
			switch {
			case c == '|':
				inBar = !inBar
			case inBar:
			case c == '(':
				depth++
				started = true
			case c == ')':
				depth--
			}
		}
		if strings.HasPrefix(line, "(error") {
			s.errs = append(s.errs, line)
			return out
		}
		if started && depth <= 0 {
			break
		}
	}
	toks := tokenize(text.String())
	// expected: ( ( name value ) ( name value ) ... )
	pos := 1
	for _, v := range vars {
		if pos >= len(toks) || toks[pos] != "(" {
			break
		}
		pos++ // (
		pos++ // name
		val, np := parseValue(toks, pos)
		pos = np
		if pos < len(toks) && toks[pos] == ")" {
			pos++
		}
		if val != nil {
			out[v] = val
		}
	}
	return out
}

func tokenize(s string) []string {
	var toks []string
	i := 0
	for i < len(s) {
		c := s[i]
		switch {
		case c == ' ' || c == '\t' || c == '\n':
			i++
		case c == '(' || c == ')':
			toks = append(toks, string(c))
			i++
		case c == '|':
			j := i + 1
			for j < len(s) && s[j] != '|' {
				j++
			}
			toks = append(toks, s[i:j+1])
			i = j + 1
		default:
			j := i
			for j < len(s) && !strings.ContainsRune(" \t\n()", rune(s[j])) {
				j++
			}
			toks = append(toks, s[i:j])
			i = j
		}
	}
	return toks
}

func parseValue(toks []string, pos int) (*big.Int, int) {
	if pos >= len(toks) {
		return nil, pos
	}
	t := toks[pos]
	switch {
	case t == "true":
		return big.NewInt(1), pos + 1
	case t == "false":
		return big.NewInt(0), pos + 1
	case strings.HasPrefix(t, "#x"):
		v, _ := new(big.Int).SetString(t[2:], 16)
		return v, pos + 1
	case strings.HasPrefix(t, "#b"):
		v, _ := new(big.Int).SetString(t[2:], 2)
		return v, pos + 1
	case t == "(":
		// (- n) or (_ bvN w)
		if pos+1 < len(toks) && toks[pos+1] == "-" {
			v, np := parseValue(toks, pos+2)
			if v != nil {
				v = new(big.Int).Neg(v)
			}
			return v, np + 1
		}
		if pos+2 < len(toks) && toks[pos+1] == "_" && strings.HasPrefix(toks[pos+2], "bv") {
			v, _ := new(big.Int).SetString(toks[pos+2][2:], 10)
			return v, pos + 5
		}
		// skip unknown s-expr
		d := 0
		for i := pos; i < len(toks); i++ {
			if toks[i] == "(" {
				d++
			} else if toks[i] == ")" {
				d--
				if d == 0 {
					return nil, i + 1
				}
			}
		}
		return nil, len(toks)
	default:
		v, ok := new(big.Int).SetString(t, 10)
		if !ok {
			return nil, pos + 1
		}
		return v, pos + 1
	}
}
