package main

// Go maps as association lists with possibly symbolic keys.
// Invariant per path: the keys of the entries are pairwise distinct under the
// path condition (insertion resolves key equality by forking).

import (
	"fmt"
	"go/types"

	"golang.org/x/tools/go/ssa"
)

type mapEntry struct {
	key     value
	val     value
	deleted bool
}

type smap struct {
	t       *types.Map
	entries []*mapEntry
	id      int
}

func newSmap(t *types.Map) *smap { return &smap{t: t} }

// find returns the entry whose key equals k on this path (forking as needed).
func (in *Interp) mapFind(m *smap, k value) *mapEntry {
	if m == nil {
		return nil
	}
	kt := m.t.Key()
	for _, e := range m.entries {
		c := in.equalsV(kt, e.key, k)
		switch c := c.(type) {
		case bool:
			if c {
				return e
			}
		case *Sym:
			if in.decide(c.T) {
				return e
			}
		}
	}
	return nil
}

func (in *Interp) lookup(fr *frame, instr *ssa.Lookup, x, idx value) value {
	switch x := x.(type) {
	case *smap:
		in.noteMapAccess(fr, x, false)
		e := in.mapFind(x, idx)
		var v value
		ok := e != nil
		if ok {
			v = e.val
		} else {
			v = zero(instr.X.Type().Underlying().(*types.Map).Elem())
		}
		if instr.CommaOk {
			return tuple{v, ok}
		}
		return v
	case string:
		return x[in.index(idx, len(x))]
	}
	panic(fmt.Sprintf("unexpected x type in Lookup: %T", x))
}

func (in *Interp) mapUpdate(m *smap, k, v value) {
	if e := in.mapFind(m, k); e != nil {
		e.val = v
		return
	}
	m.entries = append(m.entries, &mapEntry{key: k, val: v})
}

func (in *Interp) mapDelete(m *smap, k value) {
	e := in.mapFind(m, k)
	if e == nil {
		return
	}
	e.deleted = true
	for i, x := range m.entries {
		if x == e {
			m.entries = append(m.entries[:i:i], m.entries[i+1:]...)
			break
		}
	}
}

func (in *Interp) mapLen(m *smap) value {
	if m == nil {
		return 0
	}
	return len(m.entries)
}

type smapIter struct {
	in      *Interp
	m       *smap
	pending []*mapEntry
}

// newMapIter snapshots the entries; entries deleted before being reached are
// skipped, entries added during iteration are not visited (both permitted by
// the Go specification).  The visiting order is insertion order, or a
// permutation chosen by decision variables when nondeterministic map order is on.
func (in *Interp) newMapIter(m *smap) iter {
	it := &smapIter{in: in, m: m}
	if m == nil {
		return it
	}
	it.pending = append(it.pending, m.entries...)
	if in.mapOrderNondet && len(it.pending) > 1 {
		// choose a permutation lazily: at each step choose which pending entry is next
		it.pending = in.permute(it.pending)
	}
	return it
}

func (in *Interp) permute(es []*mapEntry) []*mapEntry {
	n := len(es)
	if n > in.w.cfg.MapPermMax {
		// rotations only
		k := in.choose(n, "maprot")
		return append(append([]*mapEntry{}, es[k:]...), es[:k]...)
	}
	rest := append([]*mapEntry{}, es...)
	var out []*mapEntry
	for len(rest) > 1 {
		k := in.choose(len(rest), "mapperm")
		out = append(out, rest[k])
		rest = append(rest[:k:k], rest[k+1:]...)
	}
	return append(out, rest...)
}

func (it *smapIter) next() tuple {
	for len(it.pending) > 0 {
		e := it.pending[0]
		it.pending = it.pending[1:]
		if e.deleted {
			continue
		}
		return tuple{true, e.key, e.val}
	}
	return tuple{false, nil, nil}
}
