package main

// Exploration: DFS over decision vectors by deterministic re-execution,
// several workers, each with its own term store and solver process.

import (
	"fmt"
	"go/types"
	"os"
	"runtime/debug"
	"sort"
	"strings"
	"sync"
	"time"

	"golang.org/x/tools/go/ssa"
)

type Config struct {
	Unwind     int
	MaxSteps   int
	MaxSleeps  int
	MapPermMax int
	Solver     string
	TimeoutMs  int
	Workers    int
	MaxPaths   int
	Trace      bool
	QueryLog   string
	Concrete   map[string][]string // concrete inputs (translator validation mode)
	Deadline   time.Time
	NoSlice    bool
	StepProf   bool
	Calib      map[string]bool
	Only       []string
}

type Explorer struct {
	mu      sync.Mutex
	cond    *sync.Cond
	stack   []workItem
	busy    int
	done    bool
	paths   []*PathResult
	nPaths  int
	stopped string
}

type workItem struct {
	dv    []int
	model *Model
}

func (ex *Explorer) push(it workItem) {
	ex.mu.Lock()
	ex.stack = append(ex.stack, it)
	ex.mu.Unlock()
	ex.cond.Signal()
}

func (ex *Explorer) pop() (workItem, bool) {
	ex.mu.Lock()
	defer ex.mu.Unlock()
	for {
		if ex.stopped != "" {
			return workItem{}, false
		}
		if n := len(ex.stack); n > 0 {
			dv := ex.stack[n-1]
			ex.stack = ex.stack[:n-1]
			ex.busy++
			return dv, true
		}
		if ex.busy == 0 {
			ex.done = true
			ex.cond.Broadcast()
			return workItem{}, false
		}
		ex.cond.Wait()
	}
}

func (ex *Explorer) finish(r *PathResult, maxPaths int, deadline time.Time) {
	ex.mu.Lock()
	ex.busy--
	ex.nPaths++
	ex.paths = append(ex.paths, r)
	if maxPaths > 0 && ex.nPaths >= maxPaths && ex.stopped == "" && (len(ex.stack) > 0 || ex.busy > 0) {
		ex.stopped = fmt.Sprintf("path budget %d exhausted", maxPaths)
	}
	if !deadline.IsZero() && time.Now().After(deadline) && ex.stopped == "" && (len(ex.stack) > 0 || ex.busy > 0) {
		ex.stopped = "time budget exhausted"
	}
	ex.mu.Unlock()
	ex.cond.Broadcast()
}

type Worker struct {
	id       int
	cfg      *Config
	ex       *Explorer
	prog     *ssa.Program
	ts       *TermStore
	solver   *Solver
	stubsHit map[string]int
	fnsHit   map[*ssa.Function]int
	redirect map[string]*ssa.Function
	kfOpen   map[string]bool
	initPkgs map[string]bool
	hostWG   sync.WaitGroup
	pathDone chan struct{}
	extCache map[*ssa.Function]extFn
	fnInfo   map[*ssa.Function]*fnInfo
	modelHits int
	accesses  map[string]*accessRec
	lockEdges map[string]*lockEdge
	fnSteps   map[*ssa.Function]int
	callInfo  map[*ssa.Function]*callInfo
	harness  *ssa.Function
}

type extFn func(fr *frame, args []value) value

func (w *Worker) initOK(pkg *ssa.Package) bool {
	p := pkg.Pkg.Path()
	if w.initPkgs[p] {
		return true
	}
	if strings.HasPrefix(p, "github.com/openconfig/gribigo/proto") {
		return false // generated protobuf code: registration only
	}
	return strings.HasPrefix(p, "github.com/openconfig/gribigo")
}

// runPath executes the harness once along decision vector dv.
func (w *Worker) runPath(it workItem) (res *PathResult) {
	dv := it.dv
	in := &Interp{w: w, prog: w.prog, ts: w.ts,
		globals: map[*ssa.Global]*value{}, initing: map[*ssa.Package]bool{}, atomicPtrs: map[*value]value{},
		dv: dv, model: it.model.forWorker(), known: map[*Term]bool{}, inputCount: map[string]int{},
		locks: map[*value]*lockState{}, wg: map[*value]int{}, locs: map[*value]*locInfo{}, objIDs: map[*value]int{},
		concreteIn: w.cfg.Concrete,
		res:        &PathResult{Asserts: map[string]*assertStat{}, Reach: map[string]int{}},
	}
	w.pathDone = make(chan struct{})
	g0 := in.newGoroutine("main")
	w.hostWG.Add(1)
	go in.goroutineMain(g0, func() {
		in.call(&frame{in: in, g: g0}, 0, w.harness, nil)
	})
	in.cur = g0
	g0.wake <- struct{}{}
	<-w.pathDone
	w.hostWG.Wait()
	in.res.Steps = in.steps
	if in.res.Outcome == "end" || in.res.Outcome == "panic" || in.res.Outcome == "deadlock" || in.res.Outcome == "unsupported" {
		// a model of the whole path, for samples / for panic+deadlock counterexamples
		func() {
			defer func() {
				if r := recover(); r != nil {
					if pa, ok := r.(pathAbort); ok {
						in.res.Outcome, in.res.Msg = pa.kind, pa.msg
					} else {
						in.res.Outcome, in.res.Msg = "engine-error", fmt.Sprintf("%v\n%s", r, debug.Stack())
					}
				}
			}()
			in.flush()
			m := in.model
			if m == nil && in.check() == RSat {
				m = in.fetchModel()
			}
			if m != nil {
				c := &cexRec{Label: in.res.Outcome, Kind: in.res.Outcome, Values: in.snapshotModel(m), Choices: in.choiceList(), Detail: in.res.Msg, PC: in.pcString()}
				if in.res.Outcome == "unsupported" {
					// inputs reaching the unsupported call: the driver may run them natively (concrete fallback)
					in.pending = nil
					c.Kind = "unsupported-sample"
					in.res.Outcome, in.res.Msg = "unsupported", c.Detail
					in.res.Cex = append(in.res.Cex, c)
				} else if in.res.Outcome == "end" {
					c.Reach = in.res.Reach
					c.Observe = in.observeLog
					in.res.Sample = c
				} else {
					in.res.Cex = append(in.res.Cex, c)
				}
			}
		}()
	}
	return in.res
}

type RunResult struct {
	Harness    string
	Paths      int
	Outcomes   map[string]int
	Asserts    map[string]*assertStat
	Reach      map[string]int
	Cex        []*cexRec
	Samples    []*cexRec
	Problems   []string // inconclusive outcomes with messages
	Decisions  int
	Steps      int
	Queries    int
	Sat        int
	Unsat      int
	Unknown    int
	SolverS    float64
	WallS      float64
	Stubs      map[string]int
	Functions  map[string]int
	Stopped    string
	SolverErrs []string
	Accesses   []*accessRec
	Races      []*raceRec
	LockOrder  []string
	StepsByFn  map[string]int
	LockEdges  int
}

func Explore(prog *ssa.Program, harness *ssa.Function, cfg *Config, redirect map[string]*ssa.Function, kfOpen map[string]bool, initPkgs map[string]bool) *RunResult {
	t0 := time.Now()
	ex := &Explorer{}
	ex.cond = sync.NewCond(&ex.mu)
	ex.stack = []workItem{{}}
	var wg sync.WaitGroup
	workers := make([]*Worker, cfg.Workers)
	for i := range workers {
		ts := NewTermStore()
		logp := ""
		if cfg.QueryLog != "" {
			logp = fmt.Sprintf("%s.%d.smt2", cfg.QueryLog, i)
		}
		s, err := NewSolver(cfg.Solver, ts, cfg.TimeoutMs, logp)
		if err != nil {
			fmt.Fprintln(os.Stderr, "cannot start solver:", err)
			os.Exit(2)
		}
		w := &Worker{id: i, cfg: cfg, ex: ex, prog: prog, ts: ts, solver: s,
			stubsHit: map[string]int{}, fnsHit: map[*ssa.Function]int{}, redirect: redirect,
			kfOpen: kfOpen, initPkgs: initPkgs, accesses: map[string]*accessRec{}, lockEdges: map[string]*lockEdge{}, fnSteps: map[*ssa.Function]int{}, callInfo: map[*ssa.Function]*callInfo{}, extCache: map[*ssa.Function]extFn{}, fnInfo: map[*ssa.Function]*fnInfo{}, harness: harness}
		workers[i] = w
		wg.Add(1)
		go func() {
			defer wg.Done()
			for {
				dv, ok := ex.pop()
				if !ok {
					return
				}
				r := w.runPath(dv)
				ex.finish(r, cfg.MaxPaths, cfg.Deadline)
			}
		}()
	}
	wg.Wait()
	rr := &RunResult{Harness: harness.String(), Outcomes: map[string]int{}, Asserts: map[string]*assertStat{},
		Reach: map[string]int{}, Stubs: map[string]int{}, Functions: map[string]int{}, Stopped: ex.stopped}
	for _, p := range ex.paths {
		rr.Paths++
		rr.Outcomes[p.Outcome]++
		rr.Decisions += p.Decisions
		rr.Steps += p.Steps
		for l, s := range p.Asserts {
			a := rr.Asserts[l]
			if a == nil {
				a = &assertStat{}
				rr.Asserts[l] = a
			}
			a.Discharged += s.Discharged
			a.Violated += s.Violated
			a.KnownHit += s.KnownHit
		}
		for l, n := range p.Reach {
			rr.Reach[l] += n
		}
		rr.Cex = append(rr.Cex, p.Cex...)
		if p.Sample != nil && (len(rr.Samples) < 12 || (p.Decisions > 0 && len(rr.Samples) < 24 && rr.Paths%97 == 0)) {
			rr.Samples = append(rr.Samples, p.Sample)
		}
		if cfg.Concrete != nil {
			fmt.Fprintf(os.Stderr, "concrete path outcome: %s %s\n", p.Outcome, p.Msg)
		}
		switch p.Outcome {
		case "end", "dead", "panic", "deadlock":
		default:
			if len(rr.Problems) < 20 {
				rr.Problems = append(rr.Problems, p.Outcome+": "+p.Msg)
			}
		}
	}
	for _, w := range workers {
		rr.Queries += w.solver.Queries
		rr.Sat += w.solver.Sat
		rr.Unsat += w.solver.Unsat
		rr.Unknown += w.solver.Unknown
		rr.SolverS += w.solver.Time.Seconds()
		rr.SolverErrs = append(rr.SolverErrs, w.solver.errs...)
		for k, v := range w.stubsHit {
			rr.Stubs[k] += v
		}
		for f, n := range w.fnsHit {
			rr.Functions[f.String()] += n
		}
		if cfg.StepProf {
			if rr.StepsByFn == nil {
				rr.StepsByFn = map[string]int{}
			}
			for f, n := range w.fnSteps {
				rr.StepsByFn[f.String()] += n
			}
		}
		w.solver.Close()
	}
	accs := map[string]*accessRec{}
	for _, w := range workers {
		for k, a := range w.accesses {
			accs[k] = a
		}
	}
	for _, k := range sortedKeys(accs) {
		rr.Accesses = append(rr.Accesses, accs[k])
	}
	rr.Races = eraser(rr.Accesses)
	var edges []*lockEdge
	em := map[string]*lockEdge{}
	for _, w := range workers {
		for k, e := range w.lockEdges {
			em[k] = e
		}
	}
	for _, k := range sortedKeys(em) {
		edges = append(edges, em[k])
	}
	rr.LockEdges = len(edges)
	rr.LockOrder = lockCycles(edges)
	sort.Slice(rr.Cex, func(i, j int) bool { return rr.Cex[i].Label < rr.Cex[j].Label })
	rr.WallS = time.Since(t0).Seconds()
	return rr
}

var _ = types.Typ

type raceRec struct {
	Loc  string
	A, B *accessRec
}

func roleGroup(r string) string {
	if i := strings.Index(r, ":"); i >= 0 {
		return r[:i]
	}
	return r
}

func lockModes(s string) map[string]string {
	m := map[string]string{}
	if s == "" {
		return m
	}
	for _, x := range strings.Split(s, ",") {
		i := strings.LastIndex(x, ":")
		m[x[:i]] = x[i+1:]
	}
	return m
}

// eraser: two accesses of different role groups to the same location, at least one a
// write, must hold a common lock, at least one of them in write mode.
func eraser(accs []*accessRec) []*raceRec {
	byLoc := map[string][]*accessRec{}
	for _, a := range accs {
		byLoc[a.Loc] = append(byLoc[a.Loc], a)
	}
	var out []*raceRec
	seen := map[string]bool{}
	for _, loc := range sortedKeys(byLoc) {
		as := byLoc[loc]
		for i, x := range as {
			for _, y := range as[i+1:] {
				if roleGroup(x.Role) == roleGroup(y.Role) || !(x.Write || y.Write) {
					continue
				}
				lx, ly := lockModes(x.Locks), lockModes(y.Locks)
				ok := false
				for l, mx := range lx {
					if my, has := ly[l]; has && (mx == "W" || my == "W") {
						ok = true
					}
				}
				if ok {
					continue
				}
				key := loc + "|" + x.Where + "|" + y.Where
				if seen[key] {
					continue
				}
				seen[key] = true
				out = append(out, &raceRec{Loc: loc, A: x, B: y})
			}
		}
	}
	return out
}
