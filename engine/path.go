package main

// Per-path state: decisions, path condition, inputs, assertions.

import (
	"sync"
	"sync/atomic"
	"fmt"
	"strings"
	"go/types"
	"math/big"
	"sort"

	"golang.org/x/tools/go/ssa"
)

const forcedBit = 0x1000

type Interp struct {
	w    *Worker
	prog *ssa.Program
	ts   *TermStore

	globals map[*ssa.Global]*value
	initing map[*ssa.Package]bool

	dv  []int // decision vector being replayed / extended
	pos int
	pc  []*Term        // asserted literals (not implied ones)
	model   *Model     // a model of pc (nil if none cached)
	lastSlice map[int]bool // variables of the last sliced query (nil: last query was over the whole pc)
	pending []pendingAssert
	known map[*Term]bool // base literal -> truth under pc

	steps int
	depth int
	curFr *frame
	cmpComparers    []*cmpComparer // cmp.Comparer options of the cmp.Equal call being modelled
	cmpEqualMethods bool // set while go-cmp's Equal is being modelled: Equal methods of gribigo types are honoured
	uniq       map[string]*value // unique.Make cells of this path, keyed by instantiation and value
	atomicPtrs map[*value]value // contents of sync/atomic.Pointer[T] cells, keyed by receiver
	strOrd     map[string][]string // this path's decided order facts between string terms: key < each element
	strOrdConc map[string]string   // term key -> concrete string, for terms that are constants or were decided equal to one
	strAlias   map[string]string   // term key -> key of the symbolic string it was decided equal to

	inputCount map[string]int
	inputs     []*inputRec

	mapOrderNondet bool
	schedBudget    int

	// goroutines
	gs       []*goroutine
	cur      *goroutine
	killed   bool
	locks    map[*value]*lockState
	chanSeq  int

	// results
	res *PathResult

	// access log (C11)
	accessLog   bool
	trackHeap   bool
	allocSeq    int
	sharedSeq   int
	locs        map[*value]*locInfo
	objIDs      map[*value]int
	role        string
	concreteIn  map[string][]string // concrete-input mode (translator validation)
	observeLog  []string
	clock       int64
	uuidSeq     int
	sleeps      int
	vclock      int64   // virtual time in ns: advanced by time.Sleep, jumps to the next registered deadline when nothing else can run
	vdeadlines  []int64
	wg          map[*value]int
}

type pendingAssert struct {
	label string
	cond  *Term
}

type inputRec struct {
	name string // unique: label#occurrence
	kind string // u64,u32,u8,bool,str,str:<kind>,int
	term *Term
}

type cexRec struct {
	Label   string            `json:"label"`
	Kind    string            `json:"kind"` // assert | panic | deadlock
	Known   string            `json:"known,omitempty"`
	Values  map[string]string `json:"values"`
	Choices []int             `json:"choices"`
	Detail  string            `json:"detail,omitempty"`
	PC      string            `json:"pc,omitempty"`
	Reach   map[string]int    `json:"reach,omitempty"`
	Observe []string          `json:"observe,omitempty"`
}

type PathResult struct {
	Outcome    string // end | dead | panic | deadlock | unsupported | unwinding | solver-unknown | steps | engine-error
	Msg        string
	Asserts    map[string]*assertStat
	Reach      map[string]int
	Cex        []*cexRec
	Decisions  int
	Steps      int
	Sample     *cexRec // a model of the full path (for evidence samples)
}

type assertStat struct {
	Discharged int
	Violated   int
	KnownHit   int
}

func (in *Interp) stat(label string) *assertStat {
	s := in.res.Asserts[label]
	if s == nil {
		s = &assertStat{}
		in.res.Asserts[label] = s
	}
	return s
}

func stripNot(t *Term) (*Term, bool) {
	pol := true
	for t.op == "not" {
		t = t.args[0]
		pol = !pol
	}
	return t, pol
}

func (in *Interp) litKnown(t *Term) (bool, bool) {
	b, pol := stripNot(t)
	if v, ok := in.known[b]; ok {
		return v == pol, true
	}
	// conjunction all of whose members are known true / one known false
	if b.op == "and" {
		all := true
		for _, a := range b.args {
			v, ok := in.litKnown(a)
			if ok && !v {
				return !pol, true
			}
			if !ok {
				all = false
			}
		}
		if all {
			return pol, true
		}
	}
	return false, false
}

func (in *Interp) learn(t *Term, truth bool) {
	b, pol := stripNot(t)
	in.known[b] = truth == pol
	if truth == pol {
		in.strLearnEq(b)
	}
	if b.op == "and" && (truth == pol) {
		for _, a := range b.args {
			in.learn(a, true)
		}
	}
}

func (in *Interp) check(extra ...*Term) Result {
	lits := make([]*Term, 0, len(in.pc)+len(extra))
	lits = append(lits, in.pc...)
	lits = append(lits, extra...)
	r := in.w.solver.Check(lits)
	if r == RUnknown {
		panic(pathAbort{kind: "solver-unknown", msg: fmt.Sprintf("solver answered unknown/error (%v)", in.w.solver.errs)})
	}
	in.lastSlice = nil
	return r
}

// checkSliced decides pc ∧ extra using only the literals of pc that share
// variables (transitively) with extra.  Sound because pc is satisfiable (path
// invariant) and the dropped literals have disjoint variables.  Requires a
// cached model of pc so that a full model can be assembled afterwards.
func (in *Interp) checkSliced(extra ...*Term) Result {
	if in.model == nil || in.w.cfg.NoSlice {
		return in.check(extra...)
	}
	rel := map[int]bool{}
	for _, e := range extra {
		for _, v := range e.vars {
			rel[v] = true
		}
	}
	used := make([]bool, len(in.pc))
	var lits []*Term
	for changed := true; changed; {
		changed = false
		for i, l := range in.pc {
			if used[i] {
				continue
			}
			hit := false
			for _, v := range l.vars {
				if rel[v] {
					hit = true
					break
				}
			}
			if hit {
				used[i] = true
				lits = append(lits, l)
				for _, v := range l.vars {
					if !rel[v] {
						rel[v] = true
						changed = true
					}
				}
			}
		}
	}
	lits = append(lits, extra...)
	r := in.w.solver.Check(lits)
	if r == RUnknown {
		panic(pathAbort{kind: "solver-unknown", msg: fmt.Sprintf("solver answered unknown/error (%v)", in.w.solver.errs)})
	}
	in.lastSlice = rel
	return r
}

// addLit appends a literal to the path condition, keeping the cached model only if it satisfies it.
func (in *Interp) addLit(l *Term) {
	in.pc = append(in.pc, l)
	if in.model != nil {
		if v, ok := in.model.EvalBool(l); !ok || !v {
			in.model = nil
		}
	}
}

// fetchModel reads the solver's current model (after a sat answer).  After a
// sliced query only the slice's variables are read; the others keep the values
// of the cached model of pc.
func (in *Interp) fetchModel() *Model {
	var terms []*Term
	for _, r := range in.inputs {
		if in.lastSlice == nil || in.lastSlice[r.term.id] {
			terms = append(terms, r.term)
		}
	}
	m := newModel(in.w.solver.Values(terms))
	if in.lastSlice != nil && in.model != nil {
		for k, v := range in.model.vals {
			if _, ok := m.vals[k]; !ok {
				m.vals[k] = v
			}
		}
	}
	return m
}

// decide resolves a symbolic condition on this path, forking when both
// outcomes are feasible.  A cached model of the path condition witnesses one
// side without a solver call.
func (in *Interp) decide(t *Term) bool {
	if t.IsConst() {
		return t.IsTrue()
	}
	if v, ok := in.litKnown(t); ok {
		return v
	}
	in.res.Decisions++
	if in.pos < len(in.dv) {
		d := in.dv[in.pos]
		in.pos++
		b := d&1 != 0
		lit := t
		if !b {
			lit = in.ts.Not(t)
		}
		if d&forcedBit == 0 {
			in.addLit(lit)
		}
		in.learn(t, b)
		return b
	}
	// new decision point
	var b bool
	forced := false
	nt := in.ts.Not(t)
	if mv, ok := in.model.EvalBool(t); ok {
		// side mv is witnessed by the cached model
		in.w.modelHits++
		b = mv
		other := nt
		if !mv {
			other = t
		}
		if in.checkSliced(other) == RUnsat {
			forced = true
		} else {
			am := in.fetchModel()
			od := 0
			if !mv {
				od = 1
			}
			alt := append(append([]int{}, in.dv[:in.pos]...), od)
			in.w.ex.push(workItem{dv: alt, model: am})
			in.noteFork()
		}
	} else if in.check(t) == RUnsat {
		b, forced = false, true
	} else {
		m1 := in.fetchModel()
		if in.check(nt) == RUnsat {
			b, forced = true, true
			in.model = m1
		} else {
			m2 := in.fetchModel()
			b = true
			alt := append(append([]int{}, in.dv[:in.pos]...), 0)
			in.w.ex.push(workItem{dv: alt, model: m2})
			in.noteFork()
			in.model = m1
		}
	}
	d := 0
	if b {
		d = 1
	}
	if forced {
		d |= forcedBit
	} else {
		lit := t
		if !b {
			lit = nt
		}
		in.addLit(lit)
	}
	in.dv = append(in.dv, d)
	in.pos++
	in.learn(t, b)
	return b
}

// choose is an n-way nondeterministic choice (scheduler, map order).
func (in *Interp) choose(n int, what string) int {
	if n <= 1 {
		return 0
	}
	in.res.Decisions++
	if in.pos < len(in.dv) {
		d := in.dv[in.pos]
		in.pos++
		return d &^ forcedBit
	}
	for k := n - 1; k >= 1; k-- {
		alt := append(append([]int{}, in.dv[:in.pos]...), k|forcedBit)
		in.w.ex.push(workItem{dv: alt, model: in.model})
	}
	in.dv = append(in.dv, 0|forcedBit)
	in.pos++
	return 0
}

func (in *Interp) assumeTerm(t *Term) {
	if t.IsTrue() {
		return
	}
	if t.IsFalse() {
		panic(pathAbort{kind: "dead", msg: "assumption is false at " + in.whereAmI()})
	}
	if v, ok := in.litKnown(t); ok {
		if v {
			return
		}
		panic(pathAbort{kind: "dead", msg: "assumption contradicts path"})
	}
	if mv, ok := in.model.EvalBool(t); ok && mv {
		// witnessed feasible
	} else if in.checkSliced(t) == RUnsat {
		panic(pathAbort{kind: "dead", msg: "assumption infeasible"})
	} else {
		in.model = in.fetchModel()
	}
	in.addLit(t)
	in.learn(t, true)
}

func (in *Interp) freshVar(label string, s Sort) *Term {
	n := in.inputCount[label]
	in.inputCount[label] = n + 1
	name := label
	if n > 0 {
		name = fmt.Sprintf("%s#%d", label, n)
	}
	return in.ts.Var(name, s)
}

func (in *Interp) newInput(label, kind string, s Sort) *Term {
	v := in.freshVar(label, s)
	in.inputs = append(in.inputs, &inputRec{name: v.name, kind: kind, term: v})
	return v
}

// modelValue returns a value of t in some model of the path condition.
func (in *Interp) modelValue(t *Term) (*big.Int, bool) {
	if in.check() != RSat {
		return nil, false
	}
	m := in.w.solver.Values([]*Term{t})
	v, ok := m[t]
	return v, ok
}

// snapshotModel renders the input values of a model.
func (in *Interp) snapshotModel(m *Model) map[string]string {
	out := map[string]string{}
	for _, r := range in.inputs {
		var v *big.Int
		if m != nil {
			x := m.vals[r.term.name]
			if r.term.sort.K == SBV {
				v = new(big.Int).SetUint64(uint64(x))
			} else {
				v = big.NewInt(x)
			}
		} else {
			v = big.NewInt(0)
		}
		switch {
		case r.kind == "bool":
			if v.Sign() != 0 {
				out[r.name] = "true"
			} else {
				out[r.name] = "false"
			}
		case len(r.kind) >= 3 && r.kind[:3] == "str":
			out[r.name] = in.renderStr(v, r.kind)
		default:
			out[r.name] = v.String()
		}
	}
	in.orderStrings(out)
	return out
}

// orderStrings re-renders free-form symbolic strings (kinds "str", "str:ni") so that the concrete inputs respect
// the lexical order this path decided for them (strLess): the Str sort knows equality only, so the solver's
// value says nothing about order.  Each such string becomes <greatest string decided below it> + "!" + <tag>,
// which lies above that string and below every greater string that does not extend it; when that fails to satisfy
// an upper bound the solver's rendering is kept (the native replay then decides).
func (in *Interp) orderStrings(out map[string]string) {
	if len(in.strOrd) == 0 {
		return
	}
	type symIn struct{ name, key string }
	var syms []symIn
	isSym := map[string]bool{}
	for _, r := range in.inputs {
		if r.kind != "str" && r.kind != "str:ni" {
			continue
		}
		k := in.strCanon(in.ts.Show(r.term))
		if _, c := in.strOrdConc[k]; c || isSym[k] {
			continue
		}
		interned := false
		for _, c := range in.ts.strList {
			if c == out[r.name] {
				interned = true // the model makes it equal to a concrete string: keep that if it fits the order
			}
		}
		if interned {
			fits := true
			for kc, c := range in.strOrdConc {
				if in.strOrdReach(k, kc) && !(out[r.name] < c) || in.strOrdReach(kc, k) && !(c < out[r.name]) {
					fits = false
				}
			}
			if fits {
				continue
			}
		}
		isSym[k] = true
		syms = append(syms, symIn{r.name, k})
	}
	orig := map[string]string{}
	for k, v := range out {
		orig[k] = v
	}
	assigned := map[string]string{}
	for k, c := range in.strOrdConc {
		assigned[k] = c
	}
	for round := 0; round < len(syms)+1; round++ {
		for i, s := range syms {
			if _, done := assigned[s.key]; done {
				continue
			}
			// every symbolic string decided below this one must be placed first
			ready, lo, hasLo, hi, hasHi := true, "", false, "", false
			for k := range isSym {
				if k != s.key && in.strOrdReach(k, s.key) {
					if _, ok := assigned[k]; !ok {
						ready = false
					}
				}
			}
			if !ready {
				continue
			}
			for k, c := range assigned {
				if in.strOrdReach(k, s.key) && (!hasLo || c > lo) {
					lo, hasLo = c, true
				}
				if in.strOrdReach(s.key, k) && (!hasHi || c < hi) {
					hi, hasHi = c, true
				}
			}
			cand := lo + "!" + fmt.Sprint(i)
			if hasHi && !(cand < hi) {
				break
			}
			assigned[s.key] = cand
			for _, r := range in.inputs {
				// inputs the model makes equal stay equal
				if len(r.kind) >= 3 && r.kind[:3] == "str" && orig[r.name] == orig[s.name] {
					out[r.name] = cand
				}
			}
		}
	}
}

// strKindBase: symbolic strings of these kinds range over a block of the Str
// sort disjoint from every interned concrete string (which get small indices).
var strKindBase = map[string]int64{"prefix4": 1 << 24, "prefix6": 2 << 24, "ip": 4 << 24, "mac": 5 << 24}

func (in *Interp) renderStr(v *big.Int, kind string) string {
	if v.IsInt64() {
		i := v.Int64()
		if i >= 0 && int(i) < len(in.ts.strList) {
			return in.ts.strList[i]
		}
	}
	n := new(big.Int).Abs(v)
	n.Mod(n, big.NewInt(1<<24))
	k := n.Int64()
	if v.Sign() < 0 {
		k = (k + 1<<23) % (1 << 24)
	}
	switch kind {
	case "str:prefix4":
		k = v.Int64() - strKindBase["prefix4"]
		return fmt.Sprintf("10.%d.%d.%d/32", (k>>16)&255, (k>>8)&255, k&255)
	case "str:prefix6":
		k = v.Int64() - strKindBase["prefix6"]
		return fmt.Sprintf("2001:db8:%x:%x::/64", (k>>12)&0xfff, k&0xfff)
	case "str:ip":
		k = v.Int64() - strKindBase["ip"]
		return fmt.Sprintf("10.%d.%d.%d", (k>>16)&255, (k>>8)&255, k&255)
	case "str:mac":
		k = v.Int64() - strKindBase["mac"]
		return fmt.Sprintf("02:00:00:%02x:%02x:%02x", (k>>16)&255, (k>>8)&255, k&255)
	case "str:ni":
		return fmt.Sprintf("NI-%d", k)
	}
	return fmt.Sprintf("s~%s", v.String())
}

func (in *Interp) pcString() string {
	s := ""
	for i, l := range in.pc {
		if i > 0 {
			s += " ∧ "
		}
		x := in.ts.Show(l)
		if len(x) > 300 {
			x = x[:300] + "…"
		}
		s += x
		if len(s) > 4000 {
			return s + " …"
		}
	}
	return s
}

func (in *Interp) recordCex(m *Model, label, kind, known, detail string) *cexRec {
	c := &cexRec{Label: label, Kind: kind, Known: known, Detail: detail,
		Values: in.snapshotModel(m), Choices: in.choiceList(), PC: in.pcString()}
	c.Observe = append([]string{}, in.observeLog...)
	in.res.Cex = append(in.res.Cex, c)
	return c
}

func (in *Interp) choiceList() []int {
	var out []int
	for _, d := range in.dv[:in.pos] {
		out = append(out, d&^forcedBit)
	}
	return out
}

// assertTerm checks cond on this path; region (may be nil) is the region of an
// open known finding attached to this assertion.  Plain assertions are
// deferred and discharged in one query per flush (before the next assumption
// and at the end of the path); this is sound because every extension of the
// current path is explored and flushed.
func (in *Interp) assertTerm(cond *Term, label string, kfID string, region *Term) {
	if !in.w.labelSelected(label) {
		return
	}
	st := in.stat(label)
	if v, ok := in.litKnown(cond); ok && v || cond.IsTrue() {
		st.Discharged++
		return
	}
	open := kfID != "" && in.w.kfOpen[kfID]
	if open && region != nil {
		in.flush()
		neg := in.ts.Not(cond)
		if in.check(neg, in.ts.Not(region)) == RSat {
			st.Violated++
			in.recordCex(in.fetchModel(), label, "assert", "", "outside known-finding region "+kfID)
		} else if in.check(neg, region) == RSat {
			st.KnownHit++
			in.recordCex(in.fetchModel(), label, "assert", kfID, "")
		} else {
			st.Discharged++
		}
		in.assumeTerm(cond)
		return
	}
	if cond.IsFalse() {
		m := in.model
		if m == nil {
			in.check()
			m = in.fetchModel()
		}
		st.Violated++
		in.recordCex(m, label, "assert", "", "")
		panic(pathAbort{kind: "dead", msg: "assertion is false on every continuation: " + label})
	}
	if mv, ok := in.model.EvalBool(cond); ok && !mv {
		// the cached model of the path condition falsifies the assertion
		st.Violated++
		in.recordCex(in.model, label, "assert", "", "")
		in.assumeTerm(cond)
		return
	}
	in.pending = append(in.pending, pendingAssert{label: label, cond: cond})
}

// flush discharges the deferred assertions.
func (in *Interp) flush() {
	for len(in.pending) > 0 {
		var conds []*Term
		var rest []pendingAssert
		for _, p := range in.pending {
			if v, ok := in.litKnown(p.cond); ok && v {
				in.stat(p.label).Discharged++
				continue
			}
			rest = append(rest, p)
			conds = append(conds, p.cond)
		}
		in.pending = rest
		if len(rest) == 0 {
			return
		}
		conj := in.ts.And(conds...)
		if in.checkSliced(in.ts.Not(conj)) == RUnsat {
			for _, p := range rest {
				in.stat(p.label).Discharged++
				in.learn(p.cond, true)
			}
			in.pending = nil
			return
		}
		m := in.fetchModel()
		var keep []pendingAssert
		var bad []pendingAssert
		for _, p := range rest {
			if v, ok := m.EvalBool(p.cond); ok && !v {
				bad = append(bad, p)
			} else {
				keep = append(keep, p)
			}
		}
		if len(bad) == 0 {
			// evaluation failed to attribute: fall back to individual queries
			for _, p := range rest {
				if in.check(in.ts.Not(p.cond)) == RSat {
					in.stat(p.label).Violated++
					in.recordCex(in.fetchModel(), p.label, "assert", "", "")
				} else {
					in.stat(p.label).Discharged++
					in.learn(p.cond, true)
				}
			}
			in.pending = nil
			for _, p := range rest {
				in.assumeTermQuiet(p.cond)
			}
			return
		}
		for _, p := range bad {
			in.stat(p.label).Violated++
			in.recordCex(m, p.label, "assert", "", "")
		}
		in.pending = keep
		for _, p := range bad {
			in.assumeTermQuiet(p.cond)
		}
	}
}

// assumeTermQuiet continues under an assertion that was reported violated; if no
// continuation satisfies it the path ends.
func (in *Interp) assumeTermQuiet(t *Term) {
	if v, ok := in.litKnown(t); ok && v {
		return
	}
	if in.check(t) == RUnsat {
		in.pending = nil
		panic(pathAbort{kind: "dead", msg: "no continuation satisfies a violated assertion"})
	}
	in.model = in.fetchModel()
	in.addLit(t)
	in.learn(t, true)
}

func sortedKeys[V any](m map[string]V) []string {
	ks := make([]string, 0, len(m))
	for k := range m {
		ks = append(ks, k)
	}
	sort.Strings(ks)
	return ks
}

// global returns the address of a package-level variable, running the
// package initialiser of whitelisted packages on first touch.
func (in *Interp) global(g *ssa.Global) *value {
	if p, ok := in.globals[g]; ok {
		return p
	}
	pkg := g.Pkg
	if pkg != nil && !in.initing[pkg] && in.w.initOK(pkg) && g.Name() != "init$guard" {
		in.initing[pkg] = true
		if initFn := pkg.Func("init"); initFn != nil {
			in.call(nil, 0, initFn, nil)
		}
		if p, ok := in.globals[g]; ok {
			return p
		}
	}
	if pkg != nil && g.Name() != "init$guard" && (!in.w.initOK(pkg) || pkg.Pkg.Path() == "github.com/openconfig/gribigo/aft") {
		in.w.stubsHit["uninitialised-global:"+pkg.Pkg.Path()+"."+g.Name()]++
	}
	cell := zero(mustDeref(g.Type()))
	p := &cell
	in.globals[g] = p
	return p
}

var _ = types.Typ

func (in *Interp) whereAmI() string {
	fr := in.curFr
	if fr == nil || fr.fn == nil {
		return ""
	}
	w := fr.fn.String()
	if fr.cur != nil {
		p := in.prog.Fset.Position(fr.cur.Pos())
		w += fmt.Sprintf(" (%s:%d)", filepathBase(p.Filename), p.Line)
	}
	for c, n := fr.caller, 0; c != nil && c.fn != nil && n < 4; c, n = c.caller, n+1 {
		w += " < " + c.fn.Name()
	}
	return w
}

// labelSelected: with -only, assertions labelled for another property ("Cnn:...") are skipped.
func (w *Worker) labelSelected(label string) bool {
	if len(w.cfg.Only) == 0 {
		return true
	}
	if len(label) < 4 || label[0] != 'C' || label[3] != ':' {
		return true
	}
	for _, p := range w.cfg.Only {
		if strings.HasPrefix(label, p) {
			return true
		}
	}
	return false
}

// fork-site profile (-forkprof): where do two-sided symbolic decisions happen?
var forkProfOn bool
var forkProf sync.Map // site -> *int64

func (in *Interp) noteFork() {
	if !forkProfOn {
		return
	}
	site := in.whereAmI()
	c, _ := forkProf.LoadOrStore(site, new(int64))
	atomic.AddInt64(c.(*int64), 1)
}
