package main

// Intercepted functions: harness intrinsics (vf*), environment stubs.

import (
	"net"
	"strconv"
	"fmt"
	"math/big"
	"go/token"
	"go/types"
	"strings"

	"golang.org/x/tools/go/ssa"
)

var opaqueErrType = types.NewNamed(types.NewTypeName(token.NoPos, nil, "opaqueError", nil), types.NewStruct(nil, nil), nil)
var opaqueAnyType = types.NewNamed(types.NewTypeName(token.NoPos, nil, "opaqueValue", nil), types.NewStruct(nil, nil), nil)

func zeroResults(fn *ssa.Function) value {
	res := fn.Signature.Results()
	switch res.Len() {
	case 0:
		return nil
	case 1:
		return zero(res.At(0).Type())
	}
	t := make(tuple, res.Len())
	for i := range t {
		t[i] = zero(res.At(i).Type())
	}
	return t
}

func noop(fn *ssa.Function) extFn {
	return func(fr *frame, args []value) value { return zeroResults(fn) }
}

func pkgPathOf(fn *ssa.Function) string {
	if fn.Pkg != nil {
		return fn.Pkg.Pkg.Path()
	}
	if fn.Origin() != nil && fn.Origin().Pkg != nil {
		return fn.Origin().Pkg.Pkg.Path()
	}
	if recv := fn.Signature.Recv(); recv != nil {
		t := recv.Type()
		if p, ok := t.(*types.Pointer); ok {
			t = p.Elem()
		}
		if n, ok := t.(*types.Named); ok && n.Obj().Pkg() != nil {
			return n.Obj().Pkg().Path()
		}
	}
	return ""
}

func concStr(in *Interp, v value, what string) string {
	s, ok := v.(string)
	if !ok {
		in.unsupported("%s must be a concrete string, got %T", what, v)
	}
	return s
}

func asBoolTerm(in *Interp, v value) *Term {
	switch v := v.(type) {
	case bool:
		return in.ts.Bool(v)
	case *Sym:
		return v.T
	}
	panic(fmt.Sprintf("asBoolTerm(%T)", v))
}

func (w *Worker) external(fn *ssa.Function, name string) extFn {
	if e, ok := w.extCache[fn]; ok {
		return e
	}
	e := w.resolveExternal(fn, name)
	w.extCache[fn] = e
	return e
}

func (w *Worker) resolveExternal(fn *ssa.Function, name string) extFn {
	pp := pkgPathOf(fn)
	base := fn.Name()
	// harness intrinsics
	if strings.HasPrefix(base, "vf") && fn.Signature.Recv() == nil {
		if e := vfIntrinsic(fn, base); e != nil {
			return e
		}
	}
	// package initialisers of packages we do not initialise
	if (base == "init" || strings.HasPrefix(base, "init#")) && fn.Signature.Recv() == nil && fn.Pkg != nil {
		if !w.initOK(fn.Pkg) {
			return noop(fn)
		}
		if name == "github.com/openconfig/gribigo/rib.init#1" {
			return noop(fn) // schema unzip
		}
		if pp == "github.com/openconfig/gribigo/aft" {
			// the generated package initialiser only builds schema / enum tables (31k instructions);
			// a read of one of its globals is recorded under stubs_hit as "uninitialised-global:..."
			return noop(fn)
		}
	}
	if e, ok := externTable[name]; ok {
		return func(fr *frame, args []value) value { return e(fr, fn, args) }
	}
	// unique.Make[T] (any instantiation) on concrete values: one cell per distinct value and path, so that handles
	// of equal values are equal pointers (net/netip uses it for the IPv4 / IPv6 / zone markers of an address)
	if name == "unique.Make" || strings.HasPrefix(name, "unique.Make[") {
		return func(fr *frame, a []value) value {
			in := fr.in
			key := fn.String() + "|" + concreteKey(in, a[0])
			if in.uniq == nil {
				in.uniq = map[string]*value{}
			}
			cell, ok := in.uniq[key]
			if !ok {
				v := a[0]
				cell = &v
				in.uniq[key] = cell
			}
			return structure{cell}
		}
	}
	// sync/atomic.Pointer[T] (any instantiation): the pointer lives in a side table keyed by the receiver; every
	// method is a scheduling point
	if strings.HasPrefix(name, "(*sync/atomic.Pointer[") {
		switch base {
		case "Load":
			return func(fr *frame, a []value) value {
				fr.in.preemptPoint(fr.g)
				if v, ok := fr.in.atomicPtrs[a[0].(*value)]; ok {
					return v
				}
				return (*value)(nil)
			}
		case "Store":
			return func(fr *frame, a []value) value {
				fr.in.preemptPoint(fr.g)
				fr.in.atomicPtrs[a[0].(*value)] = a[1]
				return nil
			}
		case "Swap":
			return func(fr *frame, a []value) value {
				fr.in.preemptPoint(fr.g)
				old, ok := fr.in.atomicPtrs[a[0].(*value)]
				fr.in.atomicPtrs[a[0].(*value)] = a[1]
				if !ok {
					return (*value)(nil)
				}
				return old
			}
		case "CompareAndSwap":
			return func(fr *frame, a []value) value {
				fr.in.preemptPoint(fr.g)
				cur, ok := fr.in.atomicPtrs[a[0].(*value)]
				if !ok {
					cur = (*value)(nil)
				}
				if cur.(*value) == a[1].(*value) {
					fr.in.atomicPtrs[a[0].(*value)] = a[2]
					return true
				}
				return false
			}
		}
	}
	switch pp {
	case "github.com/golang/glog", "log":
		return noop(fn)
	}
	return nil
}

type extImpl func(fr *frame, fn *ssa.Function, args []value) value

var externTable map[string]extImpl

func errIface(o *opaque) value { return iface{t: opaqueErrType, v: o} }

func newErr(fr *frame, msg string) value {
	site := ""
	if fr.caller != nil {
		site = fr.caller.fn.Name()
	}
	return errIface(&opaque{kind: "error", site: site, msg: msg})
}

func init() {
	externTable = map[string]extImpl{
		"fmt.Sprintf":  func(fr *frame, fn *ssa.Function, a []value) value { return fmtString(fr, a[0], a[1]) },
		"fmt.Sprint":   func(fr *frame, fn *ssa.Function, a []value) value { return "<fmt>" },
		"fmt.Sprintln": func(fr *frame, fn *ssa.Function, a []value) value { return "<fmt>" },
		"fmt.Errorf": func(fr *frame, fn *ssa.Function, a []value) value {
			return newErr(fr, "<errorf>")
		},
		"fmt.Fprintf":  func(fr *frame, fn *ssa.Function, a []value) value { return tuple{0, iface{}} },
		"fmt.Fprintln": func(fr *frame, fn *ssa.Function, a []value) value { return tuple{0, iface{}} },
		"fmt.Printf":   func(fr *frame, fn *ssa.Function, a []value) value { return tuple{0, iface{}} },
		"fmt.Println":  func(fr *frame, fn *ssa.Function, a []value) value { return tuple{0, iface{}} },
		"errors.New": func(fr *frame, fn *ssa.Function, a []value) value {
			m, _ := a[0].(string)
			return newErr(fr, m)
		},
		"google.golang.org/protobuf/encoding/prototext.Format": func(fr *frame, fn *ssa.Function, a []value) value { return "<prototext>" },

		"(*bytes.Buffer).WriteString": func(fr *frame, fn *ssa.Function, a []value) value { return tuple{0, iface{}} },
		"(*bytes.Buffer).String":      func(fr *frame, fn *ssa.Function, a []value) value { return "<buffer>" },

		"time.Now":              func(fr *frame, fn *ssa.Function, a []value) value { return zero(fn.Signature.Results().At(0).Type()) },
		"(time.Time).UnixNano":  func(fr *frame, fn *ssa.Function, a []value) value { fr.in.clock++; return int64(1_700_000_000_000_000_000 + fr.in.clock) },
		"time.Sleep":            func(fr *frame, fn *ssa.Function, a []value) value { fr.in.sleep(fr.g, fr.in.asInt64(a[0])); return nil },
		"github.com/google/uuid.New": func(fr *frame, fn *ssa.Function, a []value) value { return zero(fn.Signature.Results().At(0).Type()) },
		"(github.com/google/uuid.UUID).String": func(fr *frame, fn *ssa.Function, a []value) value {
			// a fresh identifier: a constant of the Str sort outside every block symbolic strings range over
			fr.in.uuidSeq++
			return &Sym{T: fr.in.ts.mk("const", sortStr, nil, "", big.NewInt(int64(3<<24+fr.in.uuidSeq)))}
		},

		// sync
		"(*sync.Mutex).Lock":      func(fr *frame, fn *ssa.Function, a []value) value { fr.in.lock(fr.g, a[0].(*value), true); return nil },
		"(*sync.Mutex).Unlock":    func(fr *frame, fn *ssa.Function, a []value) value { fr.in.unlock(fr.g, a[0].(*value), true); return nil },
		"(*sync.RWMutex).Lock":    func(fr *frame, fn *ssa.Function, a []value) value { fr.in.lock(fr.g, a[0].(*value), true); return nil },
		"(*sync.RWMutex).Unlock":  func(fr *frame, fn *ssa.Function, a []value) value { fr.in.unlock(fr.g, a[0].(*value), true); return nil },
		"(*sync.RWMutex).RLock":   func(fr *frame, fn *ssa.Function, a []value) value { fr.in.lock(fr.g, a[0].(*value), false); return nil },
		"(*sync.RWMutex).RUnlock": func(fr *frame, fn *ssa.Function, a []value) value { fr.in.unlock(fr.g, a[0].(*value), false); return nil },
		"(*sync.WaitGroup).Add": func(fr *frame, fn *ssa.Function, a []value) value {
			p := a[0].(*value)
			fr.in.wg[p] += int(fr.in.asInt64(a[1]))
			return nil
		},
		"(*sync.WaitGroup).Done": func(fr *frame, fn *ssa.Function, a []value) value {
			fr.in.wg[a[0].(*value)]--
			return nil
		},
		"(*sync.WaitGroup).Wait": func(fr *frame, fn *ssa.Function, a []value) value {
			p := a[0].(*value)
			fr.in.block(fr.g, "WaitGroup.Wait", func() bool { return fr.in.wg[p] <= 0 })
			return nil
		},

		// grpc status
		"google.golang.org/grpc/status.New": func(fr *frame, fn *ssa.Function, a []value) value {
			return &opaque{kind: "status", code: a[0], msg: a[1], site: callerName(fr)}
		},
		"google.golang.org/grpc/status.Newf": func(fr *frame, fn *ssa.Function, a []value) value {
			return &opaque{kind: "status", code: a[0], msg: "<statusmsg>", site: callerName(fr)}
		},
		"google.golang.org/grpc/status.Errorf": func(fr *frame, fn *ssa.Function, a []value) value {
			return statusErr(fr.in, &opaque{kind: "status", code: a[0], msg: "<statusmsg>", site: callerName(fr)})
		},
		"google.golang.org/grpc/status.Error": func(fr *frame, fn *ssa.Function, a []value) value {
			return statusErr(fr.in, &opaque{kind: "status", code: a[0], msg: a[1], site: callerName(fr)})
		},
		"(*google.golang.org/grpc/status.Status).WithDetails": func(fr *frame, fn *ssa.Function, a []value) value {
			st := a[0].(*opaque)
			n := &opaque{kind: "status", code: st.code, msg: st.msg, site: st.site}
			n.detail = append(append([]value{}, st.detail...), a[1].([]value)...)
			return tuple{n, iface{}}
		},
		"(*google.golang.org/grpc/status.Status).Err": func(fr *frame, fn *ssa.Function, a []value) value {
			st, _ := a[0].(*opaque)
			if st == nil {
				return iface{}
			}
			return statusErr(fr.in, st)
		},
		"(*google.golang.org/grpc/status.Status).Code": func(fr *frame, fn *ssa.Function, a []value) value {
			st, _ := a[0].(*opaque)
			if st == nil {
				return uint32(0)
			}
			return st.code
		},
		"(*google.golang.org/grpc/status.Status).Message": func(fr *frame, fn *ssa.Function, a []value) value {
			st, _ := a[0].(*opaque)
			if st == nil {
				return ""
			}
			return st.msg
		},
		"(*google.golang.org/grpc/status.Status).Details": func(fr *frame, fn *ssa.Function, a []value) value {
			st, _ := a[0].(*opaque)
			if st == nil {
				return []value(nil)
			}
			return append([]value{}, st.detail...)
		},
		"google.golang.org/grpc/status.FromError": func(fr *frame, fn *ssa.Function, a []value) value {
			st, ok := statusOf(a[0])
			if a[0].(iface).t == nil {
				return tuple{(*opaque)(nil), true}
			}
			if !ok {
				return tuple{&opaque{kind: "status", code: uint32(2), msg: "<unknown>"}, false}
			}
			return tuple{st, true}
		},
		"google.golang.org/grpc/status.Convert": func(fr *frame, fn *ssa.Function, a []value) value {
			st, ok := statusOf(a[0])
			if a[0].(iface).t == nil {
				return (*opaque)(nil)
			}
			if !ok {
				return &opaque{kind: "status", code: uint32(2), msg: "<unknown>"}
			}
			return st
		},
		"google.golang.org/grpc/status.Code": func(fr *frame, fn *ssa.Function, a []value) value {
			if a[0].(iface).t == nil {
				return uint32(0)
			}
			st, ok := statusOf(a[0])
			if !ok {
				return uint32(2)
			}
			return st.code
		},

		"github.com/openconfig/gribigo/rib.isNil": func(fr *frame, fn *ssa.Function, a []value) value {
			switch x := a[0].(type) {
			case *value:
				return x == nil
			case *smap:
				return x == nil
			case *schan:
				return x == nil
			case iface:
				if x.t == nil {
					return true
				}
				if p, ok := x.v.(*value); ok {
					return p == nil
				}
				return false
			case nil:
				return true
			}
			return false
		},

		"sort.Slice": func(fr *frame, fn *ssa.Function, a []value) value {
			xs, ok := a[0].(iface).v.([]value)
			if !ok {
				fr.in.unsupported("sort.Slice of %T", a[0].(iface).v)
			}
			less := func(i, j int) bool {
				r := fr.in.call(fr, 0, a[1], []value{i, j})
				if b, ok := r.(bool); ok {
					return b
				}
				return fr.in.decide(r.(*Sym).T)
			}
			// insertion sort through less(i,j) on the live slice (stable, like sort.SliceStable; sort.Slice promises less)
			for i := 1; i < len(xs); i++ {
				for j := i; j > 0 && less(j, j-1); j-- {
					xs[j], xs[j-1] = xs[j-1], xs[j]
				}
			}
			return nil
		},
		// math/rand: the permutation is a symbolic choice (Fisher-Yates with one fresh input per step), so that
		// "for every shuffle" is part of the query; the generator objects themselves are never consulted.
		"math/rand.Shuffle": func(fr *frame, fn *ssa.Function, a []value) value {
			in := fr.in
			n := int(in.asInt64(a[0]))
			for i := n - 1; i > 0; i-- {
				j := i
				if s, ok := in.concreteInput("rand.shuffle"); ok {
					v, _ := strconv.Atoi(s)
					j = v
				} else {
					v := in.newInput("rand.shuffle", "int", bvSort(64))
					in.assumeTerm(in.ts.BVOp("bvsle", in.ts.BV(0, 64), v))
					in.assumeTerm(in.ts.BVOp("bvsle", v, in.ts.BV(uint64(i), 64)))
					for k := 0; k < i; k++ {
						if in.decide(in.ts.Eq(v, in.ts.BV(uint64(k), 64))) {
							j = k
							break
						}
					}
				}
				in.call(fr, 0, a[1], []value{i, j})
			}
			return nil
		},
		// net.IP.String depends on net/netip's package state (not initialised in the engine): host-side for concrete bytes
		"(net.IP).String": func(fr *frame, fn *ssa.Function, a []value) value {
			xs, _ := a[0].([]value)
			b := make([]byte, len(xs))
			for i, x := range xs {
				u, ok := x.(uint8)
				if !ok {
					fr.in.unsupported("net.IP.String on symbolic bytes")
				}
				b[i] = u
			}
			return net.IP(b).String()
		},
		"math/rand.New":       func(fr *frame, fn *ssa.Function, a []value) value { return (*value)(nil) },
		"math/rand.NewSource": func(fr *frame, fn *ssa.Function, a []value) value { return iface{} },
		// assembly-backed helpers of the strings package, on concrete strings
		"internal/bytealg.IndexByteString": func(fr *frame, fn *ssa.Function, a []value) value {
			s, ok := a[0].(string)
			c, ok2 := a[1].(uint8)
			if !ok || !ok2 {
				fr.in.unsupported("bytealg.IndexByteString on a symbolic string")
			}
			return strings.IndexByte(s, c)
		},
		"internal/bytealg.CountString": func(fr *frame, fn *ssa.Function, a []value) value {
			s, ok := a[0].(string)
			c, ok2 := a[1].(uint8)
			if !ok || !ok2 {
				fr.in.unsupported("bytealg.CountString on a symbolic string")
			}
			return strings.Count(s, string(rune(c)))
		},
		"sort.Strings": func(fr *frame, fn *ssa.Function, a []value) value {
			xs := a[0].([]value)
			for i := 1; i < len(xs); i++ {
				for j := i; j > 0; j-- {
					lt := fr.in.strLess(xs[j], xs[j-1])
					if !lt {
						break
					}
					xs[j], xs[j-1] = xs[j-1], xs[j]
				}
			}
			return nil
		},

		// deep copy / equality
		"google.golang.org/protobuf/proto.Clone": func(fr *frame, fn *ssa.Function, a []value) value {
			return deepCopy(a[0], map[*value]*value{}, map[*smap]*smap{})
		},
		"github.com/openconfig/ygot/ygot.DeepCopy": func(fr *frame, fn *ssa.Function, a []value) value {
			return tuple{deepCopy(a[0], map[*value]*value{}, map[*smap]*smap{}), iface{}}
		},
		"google.golang.org/protobuf/proto.Equal": func(fr *frame, fn *ssa.Function, a []value) value {
			x, y := a[0].(iface), a[1].(iface)
			if x.t != nil && y.t != nil && types.Identical(x.t, y.t) {
				return fr.in.deepEqT(x.t, x.v, y.v, nil, 0)
			}
			return fr.in.deepEq(a[0], a[1], 0)
		},
		"reflect.DeepEqual": func(fr *frame, fn *ssa.Function, a []value) value {
			return fr.in.deepEq(a[0], a[1], 0)
		},
	}
}

func init() {
	// sync/atomic: plain memory operations (one interpreted goroutine runs at a time);
	// each is a scheduling point.
	for _, t := range []string{"Int32", "Int64", "Uint32", "Uint64", "Uintptr", "Pointer"} {
		t := t
		externTable["sync/atomic.Load"+t] = func(fr *frame, fn *ssa.Function, a []value) value {
			fr.in.preemptPoint(fr.g)
			return *derefPtr(a[0], "atomic load")
		}
		externTable["sync/atomic.Store"+t] = func(fr *frame, fn *ssa.Function, a []value) value {
			fr.in.preemptPoint(fr.g)
			*derefPtr(a[0], "atomic store") = a[1]
			return nil
		}
		externTable["sync/atomic.Swap"+t] = func(fr *frame, fn *ssa.Function, a []value) value {
			fr.in.preemptPoint(fr.g)
			p := derefPtr(a[0], "atomic swap")
			old := *p
			*p = a[1]
			return old
		}
		externTable["sync/atomic.CompareAndSwap"+t] = func(fr *frame, fn *ssa.Function, a []value) value {
			fr.in.preemptPoint(fr.g)
			p := derefPtr(a[0], "atomic cas")
			eq := fr.in.equalsV(fn.Signature.Params().At(1).Type(), *p, a[1])
			b, ok := eq.(bool)
			if !ok {
				b = fr.in.decide(eq.(*Sym).T)
			}
			if b {
				*p = a[2]
			}
			return b
		}
		externTable["sync/atomic.Add"+t] = func(fr *frame, fn *ssa.Function, a []value) value {
			fr.in.preemptPoint(fr.g)
			p := derefPtr(a[0], "atomic add")
			*p = fr.in.binop(token.ADD, fn.Signature.Params().At(1).Type(), *p, a[1])
			return *p
		}
	}
	// grpc's status.Status is an alias of internal/status.Status
	for k, v := range externTable {
		const pub = "(*google.golang.org/grpc/status.Status)."
		if strings.HasPrefix(k, pub) {
			externTable["(*google.golang.org/grpc/internal/status.Status)."+k[len(pub):]] = v
		}
	}
}

func callerName(fr *frame) string {
	if fr.caller != nil {
		return fr.caller.fn.Name()
	}
	return ""
}

func statusErr(in *Interp, st *opaque) value {
	// status with code OK has a nil error
	switch c := st.code.(type) {
	case uint32:
		if c == 0 {
			return iface{}
		}
	case *Sym:
		if in.decide(in.ts.Eq(c.T, in.ts.BV(0, 32))) {
			return iface{}
		}
	}
	return errIface(&opaque{kind: "statuserr", code: st.code, detail: st.detail, msg: st.msg, site: st.site})
}

func statusOf(e value) (*opaque, bool) {
	i, ok := e.(iface)
	if !ok || i.t == nil {
		return nil, false
	}
	o, ok := i.v.(*opaque)
	if !ok || o.kind != "statuserr" {
		return nil, false
	}
	return &opaque{kind: "status", code: o.code, detail: o.detail, msg: o.msg, site: o.site}, true
}

func opaqueHasMethod(o *opaque, name string) bool {
	switch o.kind {
	case "error":
		return name == "Error"
	case "statuserr":
		return name == "Error" || name == "GRPCStatus"
	}
	return false
}

func (in *Interp) callOpaqueMethod(caller *frame, m *opaqueMethod, args []value) value {
	switch m.name {
	case "Error":
		if s, ok := m.recv.msg.(string); ok && s != "" {
			return s
		}
		return "<error " + m.recv.site + ">"
	case "GRPCStatus":
		st, _ := statusOf(errIface(m.recv))
		return st
	}
	in.unsupported("method %s on opaque %s", m.name, m.recv.kind)
	return nil
}

// fmtString models Sprintf: the result is an opaque concrete string, except for
// the degenerate single-verb formats of a concrete argument which are computed.
func fmtString(fr *frame, format value, args value) value {
	f, _ := format.(string)
	as, _ := args.([]value)
	if (f == "%d" || f == "%s" || f == "%v") && len(as) == 1 {
		if i, ok := as[0].(iface); ok {
			switch x := i.v.(type) {
			case string:
				return x
			case int, int8, int16, int32, int64, uint, uint8, uint16, uint32, uint64:
				return fmt.Sprint(x)
			}
		}
	}
	return "<fmt:" + f + ">"
}

// deepCopy duplicates the heap graph reachable from v.
func deepCopy(v value, memo map[*value]*value, mm map[*smap]*smap) value {
	switch x := v.(type) {
	case *value:
		if x == nil {
			return x
		}
		if n, ok := memo[x]; ok {
			return n
		}
		n := new(value)
		memo[x] = n
		*n = deepCopy(*x, memo, mm)
		return n
	case structure:
		s := make(structure, len(x))
		for i := range x {
			s[i] = deepCopy(x[i], memo, mm)
		}
		return s
	case array:
		s := make(array, len(x))
		for i := range x {
			s[i] = deepCopy(x[i], memo, mm)
		}
		return s
	case []value:
		if x == nil {
			return x
		}
		s := make([]value, len(x))
		for i := range x {
			s[i] = deepCopy(x[i], memo, mm)
		}
		return s
	case iface:
		return iface{t: x.t, v: deepCopy(x.v, memo, mm)}
	case *smap:
		if x == nil {
			return x
		}
		if n, ok := mm[x]; ok {
			return n
		}
		n := &smap{t: x.t}
		mm[x] = n
		for _, e := range x.entries {
			n.entries = append(n.entries, &mapEntry{key: deepCopy(e.key, memo, mm), val: deepCopy(e.val, memo, mm)})
		}
		return n
	case tuple:
		s := make(tuple, len(x))
		for i := range x {
			s[i] = deepCopy(x[i], memo, mm)
		}
		return s
	}
	return v
}

// deepEq is structural equality over the heap graph (proto.Equal /
// reflect.DeepEqual on the value shapes the engine builds).
func (in *Interp) deepEq(x, y value, depth int) value {
	if depth > 50 {
		in.unsupported("deepEq recursion too deep")
	}
	if isSym(x) || isSym(y) {
		return in.mkSym(types.Typ[types.Bool], in.ts.Eq(in.toTerm(x), in.toTerm(y)))
	}
	switch a := x.(type) {
	case *value:
		b, ok := y.(*value)
		if !ok {
			return false
		}
		if a == nil || b == nil {
			return a == nil && b == nil
		}
		if a == b {
			return true
		}
		return in.deepEq(*a, *b, depth+1)
	case structure:
		b, ok := y.(structure)
		if !ok || len(a) != len(b) {
			return false
		}
		var acc value = true
		for i := range a {
			acc = in.andV(acc, in.deepEq(a[i], b[i], depth+1))
			if r, ok := acc.(bool); ok && !r {
				return false
			}
		}
		return acc
	case array:
		b, ok := y.(array)
		if !ok || len(a) != len(b) {
			return false
		}
		var acc value = true
		for i := range a {
			acc = in.andV(acc, in.deepEq(a[i], b[i], depth+1))
		}
		return acc
	case []value:
		b, ok := y.([]value)
		if !ok || len(a) != len(b) {
			return false
		}
		var acc value = true
		for i := range a {
			acc = in.andV(acc, in.deepEq(a[i], b[i], depth+1))
			if r, ok := acc.(bool); ok && !r {
				return false
			}
		}
		return acc
	case iface:
		b, ok := y.(iface)
		if !ok {
			return false
		}
		if a.t == nil || b.t == nil {
			return a.t == nil && b.t == nil
		}
		if !types.Identical(a.t, b.t) {
			return false
		}
		return in.deepEq(a.v, b.v, depth+1)
	case *smap:
		b, ok := y.(*smap)
		if !ok {
			return false
		}
		la, lb := 0, 0
		if a != nil {
			la = len(a.entries)
		}
		if b != nil {
			lb = len(b.entries)
		}
		if la != lb {
			return false
		}
		var acc value = true
		if a != nil {
			for _, e := range a.entries {
				f := in.mapFind(b, e.key)
				if f == nil {
					return false
				}
				acc = in.andV(acc, in.deepEq(e.val, f.val, depth+1))
			}
		}
		return acc
	case *opaque:
		b, ok := y.(*opaque)
		return ok && a == b
	case nil:
		return y == nil
	case *ssa.Function, *closure:
		return false
	}
	// concrete scalars
	defer func() {
		if r := recover(); r != nil {
			if _, ok := r.(pathAbort); ok {
				panic(r)
			}
			panic(pathAbort{kind: "unsupported", msg: fmt.Sprintf("deepEq(%T,%T)", x, y)})
		}
	}()
	return x == y
}

// strLess decides x < y for strings of which at least one may be symbolic.  The Str sort has equality only: the
// lexical order of a symbolic string relative to another string is a free Boolean, fixed per pair of terms for
// the whole path ("for every name, wherever it sorts"); equal strings are never "less".  The decisions of one
// path are kept transitively consistent (with each other and with the real order of concrete strings), so that a
// path never describes an order no assignment of strings has... up to density: the solver's model is still not
// asked to produce strings in that order - a counterexample is replayed natively before it is reported.
func (in *Interp) strLess(xv, yv value) bool {
	x, ok1 := xv.(string)
	y, ok2 := yv.(string)
	if ok1 && ok2 {
		return x < y
	}
	tx, ty := in.toTerm(xv), in.toTerm(yv)
	if in.decide(in.ts.Eq(tx, ty)) {
		return false
	}
	kx, ky := in.strCanon(in.ts.Show(tx)), in.strCanon(in.ts.Show(ty))
	if in.strOrd == nil {
		in.strOrd = map[string][]string{}
		in.strOrdConc = map[string]string{}
	}
	if ok1 {
		in.strOrdConc[kx] = x
	}
	if ok2 {
		in.strOrdConc[ky] = y
	}
	if cx, okx := in.strOrdConc[kx]; okx {
		if cy, oky := in.strOrdConc[ky]; oky {
			return cx < cy // both are known to equal concrete strings on this path
		}
	}
	if in.strOrdReach(kx, ky) {
		return true
	}
	if in.strOrdReach(ky, kx) {
		return false
	}
	a, b, flip := tx, ty, false
	if kx > ky {
		a, b, flip = ty, tx, true
	}
	v := in.ts.Var("strlt|"+in.ts.Show(a)+"|"+in.ts.Show(b), sortBool)
	lt := in.decide(v) != flip
	// an equality learnt while deciding (the decision vector may carry it) can already contradict nothing here:
	// x != y was decided above and neither order was implied.
	if lt {
		in.strOrd[kx] = append(in.strOrd[kx], ky)
	} else {
		in.strOrd[ky] = append(in.strOrd[ky], kx)
	}
	return lt
}

func (in *Interp) strCanon(k string) string {
	for {
		n, ok := in.strAlias[k]
		if !ok {
			return k
		}
		k = n
	}
}

// strLearnEq is called when an equality between Str terms becomes true on the path: a symbolic string that has
// order decisions behind it now has a concrete value (or is merged with another symbolic string), and every
// earlier order decision must agree with the real order - otherwise no strings satisfy this path and it ends.
func (in *Interp) strLearnEq(t *Term) {
	if t.op != "=" || len(t.args) != 2 || t.args[0].sort.K != SStr {
		return
	}
	if in.strOrd == nil {
		in.strOrd = map[string][]string{}
		in.strOrdConc = map[string]string{}
	}
	if in.strAlias == nil {
		in.strAlias = map[string]string{}
	}
	ka, kb := in.strCanon(in.ts.Show(t.args[0])), in.strCanon(in.ts.Show(t.args[1]))
	for _, x := range t.args {
		if x.IsConst() {
			if i := int(x.val.Int64()); i >= 0 && i < len(in.ts.strList) {
				in.strOrdConc[in.ts.Show(x)] = in.ts.strList[i]
			}
		}
	}
	if ka == kb {
		return
	}
	ca, oka := in.strOrdConc[ka]
	cb, okb := in.strOrdConc[kb]
	if oka && okb && ca != cb {
		panic(pathAbort{kind: "dead", msg: "string equality contradicts known values"})
	}
	// merge the two nodes; a node with a concrete value survives under the key of that constant
	if okb && !oka {
		ka, kb = kb, ka
	}
	in.strAlias[kb] = ka
	delete(in.strOrdConc, kb)
	in.strOrd[ka] = append(in.strOrd[ka], in.strOrd[kb]...)
	delete(in.strOrd, kb)
	for k, es := range in.strOrd {
		for i, e := range es {
			if e == kb {
				es[i] = ka
			}
		}
		in.strOrd[k] = es
	}
	// consistency: no decided edge u < v may be contradicted (v <= u derivable)
	for u, es := range in.strOrd {
		for _, v := range es {
			cu, o1 := in.strOrdConc[u]
			cv, o2 := in.strOrdConc[v]
			if u == v || (o1 && o2 && !(cu < cv)) || in.strOrdReach(v, u) {
				panic(pathAbort{kind: "dead", msg: "the order decided for symbolic strings contradicts the values they turned out to have"})
			}
		}
	}
}

// strOrdReach: is "from < to" implied by this path's earlier order decisions and the order of concrete strings?
func (in *Interp) strOrdReach(from, to string) bool {
	seen := map[string]bool{from: true}
	work := []string{from}
	for len(work) > 0 {
		n := work[len(work)-1]
		work = work[:len(work)-1]
		next := append([]string{}, in.strOrd[n]...)
		if c, ok := in.strOrdConc[n]; ok {
			for k, d := range in.strOrdConc {
				if c < d {
					next = append(next, k)
				}
			}
		}
		for _, m := range next {
			if m == to {
				return true
			}
			if !seen[m] {
				seen[m] = true
				work = append(work, m)
			}
		}
	}
	return false
}

// concreteKey renders a concrete value of basic / struct / array shape as a map key; symbolic parts are unsupported.
func concreteKey(in *Interp, v value) string {
	switch x := v.(type) {
	case structure:
		s := "{"
		for _, f := range x {
			s += concreteKey(in, f) + ","
		}
		return s + "}"
	case array:
		s := "["
		for _, f := range x {
			s += concreteKey(in, f) + ","
		}
		return s + "]"
	case *Sym:
		in.unsupported("unique.Make of a symbolic value")
	case bool, string, int, int8, int16, int32, int64, uint, uint8, uint16, uint32, uint64, uintptr:
		return fmt.Sprintf("%T:%v", x, x)
	}
	in.unsupported("unique.Make of %T", v)
	return ""
}
