package main

// Evaluation of terms under a (partial) model: unassigned variables are 0.
// Used to answer feasibility questions from cached models without a solver call.

import (
	"math/big"
	"strconv"
	"strings"
)

type Model struct {
	vals map[string]int64 // by variable name; BV values as uint64 bit patterns (stored in int64), Bool 0/1, Str ints
	memo map[*Term]int64
	bad  bool
}

func newModel(m map[*Term]*big.Int) *Model {
	md := &Model{vals: map[string]int64{}, memo: map[*Term]int64{}}
	for t, v := range m {
		switch {
		case t.sort.K == SBV:
			md.vals[t.name] = int64(new(big.Int).And(v, new(big.Int).SetUint64(^uint64(0))).Uint64())
		case v.IsInt64():
			md.vals[t.name] = v.Int64()
		default:
			md.bad = true
		}
	}
	return md
}

type evalFail struct{}

func (m *Model) Eval(t *Term) (res int64, ok bool) {
	if m == nil || m.bad {
		return 0, false
	}
	defer func() {
		if r := recover(); r != nil {
			if _, isF := r.(evalFail); isF {
				ok = false
				return
			}
			panic(r)
		}
	}()
	return m.ev(t), true
}

func (m *Model) EvalBool(t *Term) (bool, bool) {
	v, ok := m.Eval(t)
	return v != 0, ok
}

func parseIdx(op string) (string, []int) {
	// "(_ extract 31 0)" -> "extract", [31,0]
	f := strings.Fields(strings.Trim(op, "()"))
	var ns []int
	for _, x := range f[2:] {
		n, _ := strconv.Atoi(x)
		ns = append(ns, n)
	}
	return f[1], ns
}

func b2i(b bool) int64 {
	if b {
		return 1
	}
	return 0
}

func (m *Model) ev(t *Term) int64 {
	switch t.op {
	case "const":
		if t.sort.K == SBV {
			return int64(t.val.Uint64())
		}
		return t.val.Int64()
	case "var":
		return m.vals[t.name] // 0 when unassigned
	}
	if v, ok := m.memo[t]; ok {
		return v
	}
	var r int64
	a := t.args
	w := 0
	if len(a) > 0 {
		w = a[0].sort.W
	}
	mk := func(u uint64, w int) int64 { return int64(u & mask(w)) }
	switch t.op {
	case "not":
		r = 1 - m.ev(a[0])
	case "and":
		r = 1
		for _, x := range a {
			if m.ev(x) == 0 {
				r = 0
				break
			}
		}
	case "=":
		r = b2i(m.ev(a[0]) == m.ev(a[1]))
	case "ite":
		if m.ev(a[0]) != 0 {
			r = m.ev(a[1])
		} else {
			r = m.ev(a[2])
		}
	case "<=":
		r = b2i(m.ev(a[0]) <= m.ev(a[1]))
	case "<":
		r = b2i(m.ev(a[0]) < m.ev(a[1]))
	case "bvadd":
		r = mk(uint64(m.ev(a[0]))+uint64(m.ev(a[1])), w)
	case "bvsub":
		r = mk(uint64(m.ev(a[0]))-uint64(m.ev(a[1])), w)
	case "bvmul":
		r = mk(uint64(m.ev(a[0]))*uint64(m.ev(a[1])), w)
	case "bvand":
		r = m.ev(a[0]) & m.ev(a[1])
	case "bvor":
		r = m.ev(a[0]) | m.ev(a[1])
	case "bvxor":
		r = m.ev(a[0]) ^ m.ev(a[1])
	case "bvnot":
		r = mk(^uint64(m.ev(a[0])), w)
	case "bvneg":
		r = mk(-uint64(m.ev(a[0])), w)
	case "bvshl":
		x, y := uint64(m.ev(a[0])), uint64(m.ev(a[1]))
		if y >= uint64(w) {
			r = 0
		} else {
			r = mk(x<<y, w)
		}
	case "bvlshr":
		x, y := uint64(m.ev(a[0])), uint64(m.ev(a[1]))
		if y >= uint64(w) {
			r = 0
		} else {
			r = int64(x >> y)
		}
	case "bvashr":
		x, y := sext(uint64(m.ev(a[0])), w), uint64(m.ev(a[1]))
		if y >= uint64(w) {
			y = uint64(w - 1)
		}
		r = mk(uint64(x>>y), w)
	case "bvult":
		r = b2i(uint64(m.ev(a[0])) < uint64(m.ev(a[1])))
	case "bvule":
		r = b2i(uint64(m.ev(a[0])) <= uint64(m.ev(a[1])))
	case "bvslt":
		r = b2i(sext(uint64(m.ev(a[0])), w) < sext(uint64(m.ev(a[1])), w))
	case "bvsle":
		r = b2i(sext(uint64(m.ev(a[0])), w) <= sext(uint64(m.ev(a[1])), w))
	case "bvudiv":
		y := uint64(m.ev(a[1]))
		if y == 0 {
			r = int64(mask(w))
		} else {
			r = int64(uint64(m.ev(a[0])) / y)
		}
	case "bvurem":
		y := uint64(m.ev(a[1]))
		if y == 0 {
			r = m.ev(a[0])
		} else {
			r = int64(uint64(m.ev(a[0])) % y)
		}
	default:
		if strings.HasPrefix(t.op, "(_ ") {
			name, ns := parseIdx(t.op)
			x := uint64(m.ev(a[0]))
			switch name {
			case "extract":
				r = mk(x>>uint(ns[1]), ns[0]-ns[1]+1)
			case "zero_extend":
				r = int64(x)
			case "sign_extend":
				r = mk(uint64(sext(x, w)), w+ns[0])
			default:
				panic(evalFail{})
			}
		} else {
			panic(evalFail{})
		}
	}
	m.memo[t] = r
	return r
}

// forWorker returns a view of the model usable by another worker (own memo table).
func (m *Model) forWorker() *Model {
	if m == nil {
		return nil
	}
	return &Model{vals: m.vals, memo: map[*Term]int64{}, bad: m.bad}
}
