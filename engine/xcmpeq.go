package main

// cmp.Equal / cmpopts.IgnoreFields / protocmp.Transform as structural equality
// over the engine's heap graph, typed so that ignored fields can be skipped.

import (
	"strings"
	"go/types"

	"golang.org/x/tools/go/ssa"
)

type ignoreSpec struct {
	typ   types.Type // the struct type (named)
	names map[string]bool
}

func structOf(t types.Type) (*types.Struct, types.Type) {
	if p, ok := t.Underlying().(*types.Pointer); ok {
		t = p.Elem()
	}
	s, _ := t.Underlying().(*types.Struct)
	return s, t
}

func (in *Interp) deepEqT(t types.Type, x, y value, ign []*ignoreSpec, depth int) value {
	if depth > 60 {
		in.unsupported("deepEqT recursion too deep")
	}
	// go-cmp: "if the values have an Equal method of the form (T) Equal(T) bool, use the result of x.Equal(y)" - the
	// real method of the code under test is called (only for gribigo's own types, when cmp.Equal is being modelled)
	// cmp.Comparer(func(a, b T) bool): the caller's own function decides values of exactly type T
	for _, c := range in.cmpComparers {
		if types.Identical(c.typ, t) {
			return in.call(in.curFr, 0, c.fn, []value{x, y})
		}
	}
	if in.cmpEqualMethods && depth > 0 {
		if m := in.equalMethodOf(t); m != nil {
			r := in.call(in.curFr, 0, m, []value{x, y})
			return r
		}
	}
	switch u := t.Underlying().(type) {
	case *types.Pointer:
		a, ok1 := x.(*value)
		b, ok2 := y.(*value)
		if !ok1 || !ok2 {
			return in.deepEq(x, y, depth)
		}
		if a == nil || b == nil {
			return a == nil && b == nil
		}
		if a == b {
			return true
		}
		return in.deepEqT(u.Elem(), *a, *b, ign, depth+1)
	case *types.Struct:
		a, ok1 := x.(structure)
		b, ok2 := y.(structure)
		if !ok1 || !ok2 {
			return in.deepEq(x, y, depth)
		}
		var skip map[string]bool
		for _, s := range ign {
			if types.Identical(s.typ, t) {
				skip = s.names
			}
		}
		var acc value = true
		for i := 0; i < u.NumFields(); i++ {
			f := u.Field(i)
			if skip[f.Name()] {
				continue
			}
			// protobuf bookkeeping fields are not part of message equality
			if !f.Exported() && (f.Name() == "state" || f.Name() == "sizeCache" || f.Name() == "unknownFields") {
				continue
			}
			acc = in.andV(acc, in.deepEqT(f.Type(), a[i], b[i], ign, depth+1))
			if r, ok := acc.(bool); ok && !r {
				return false
			}
		}
		return acc
	case *types.Slice:
		a, ok1 := x.([]value)
		b, ok2 := y.([]value)
		if !ok1 || !ok2 {
			return in.deepEq(x, y, depth)
		}
		// cmp.Equal distinguishes nil and empty slices; protocmp / proto.Equal do not: lengths decide
		if len(a) != len(b) {
			return false
		}
		var acc value = true
		for i := range a {
			acc = in.andV(acc, in.deepEqT(u.Elem(), a[i], b[i], ign, depth+1))
			if r, ok := acc.(bool); ok && !r {
				return false
			}
		}
		return acc
	case *types.Interface:
		a, ok1 := x.(iface)
		b, ok2 := y.(iface)
		if !ok1 || !ok2 {
			return in.deepEq(x, y, depth)
		}
		if a.t == nil || b.t == nil {
			return a.t == nil && b.t == nil
		}
		if !types.Identical(a.t, b.t) {
			return false
		}
		return in.deepEqT(a.t, a.v, b.v, ign, depth+1)
	case *types.Basic:
		if isSym(x) || isSym(y) {
			return in.mkSym(types.Typ[types.Bool], in.ts.Eq(in.toTerm(x), in.toTerm(y)))
		}
		return in.equalsV(t, x, y)
	}
	return in.deepEq(x, y, depth)
}

// cmpComparer: one cmp.Comparer option - values of exactly typ are compared by calling fn.
type cmpComparer struct {
	typ types.Type
	fn  value
}

func init() {
	externTable["github.com/google/go-cmp/cmp/cmpopts.IgnoreFields"] = func(fr *frame, fn *ssa.Function, a []value) value {
		t := a[0].(iface).t
		names := map[string]bool{}
		for _, n := range a[1].([]value) {
			names[concStr(fr.in, n, "IgnoreFields name")] = true
		}
		return iface{t: opaqueAnyType, v: &opaque{kind: "cmp-ignore", detail: []value{&ignoreSpec{typ: t, names: names}}}}
	}
	externTable["google.golang.org/protobuf/testing/protocmp.Transform"] = func(fr *frame, fn *ssa.Function, a []value) value {
		return iface{t: opaqueAnyType, v: &opaque{kind: "cmp-transform"}}
	}
	externTable["github.com/google/go-cmp/cmp.Comparer"] = func(fr *frame, fn *ssa.Function, a []value) value {
		f, ok := a[0].(iface)
		sig, _ := f.t.(*types.Signature)
		if !ok || sig == nil || sig.Params().Len() != 2 || !types.Identical(sig.Params().At(0).Type(), sig.Params().At(1).Type()) {
			fr.in.unsupported("cmp.Comparer with an argument that is not func(T, T) bool")
		}
		return iface{t: opaqueAnyType, v: &opaque{kind: "cmp-comparer", detail: []value{&cmpComparer{typ: sig.Params().At(0).Type(), fn: f.v}}}}
	}
	cmpEq := func(fr *frame, a []value) value {
		var ign []*ignoreSpec
		var comps []*cmpComparer
		if len(a) > 2 {
			for _, o := range a[2].([]value) {
				if i, ok := o.(iface); ok {
					if op, ok := i.v.(*opaque); ok && op.kind == "cmp-ignore" {
						ign = append(ign, op.detail[0].(*ignoreSpec))
					}
					if op, ok := i.v.(*opaque); ok && op.kind == "cmp-comparer" {
						comps = append(comps, op.detail[0].(*cmpComparer))
					}
				}
			}
		}
		savedC := fr.in.cmpComparers
		fr.in.cmpComparers = comps
		defer func() { fr.in.cmpComparers = savedC }()
		x, y := a[0].(iface), a[1].(iface)
		if x.t == nil || y.t == nil {
			return x.t == nil && y.t == nil
		}
		if !types.Identical(x.t, y.t) {
			return false
		}
		saved := fr.in.cmpEqualMethods
		fr.in.cmpEqualMethods = true
		fr.in.curFr = fr
		r := fr.in.deepEqT(x.t, x.v, y.v, ign, 0)
		fr.in.cmpEqualMethods = saved
		return r
	}
	externTable["github.com/google/go-cmp/cmp.Equal"] = func(fr *frame, fn *ssa.Function, a []value) value { return cmpEq(fr, a) }
	externTable["github.com/google/go-cmp/cmp.Diff"] = func(fr *frame, fn *ssa.Function, a []value) value {
		r := cmpEq(fr, a)
		switch r := r.(type) {
		case bool:
			if r {
				return ""
			}
			return "<diff>"
		case *Sym:
			return fr.in.mkSym(types.Typ[types.String], fr.in.ts.Ite(r.T, fr.in.ts.Str(""), fr.in.ts.Str("<diff>")))
		}
		return "<diff>"
	}
}

// ---- *status.Status <-> its protobuf (google.rpc.Status) ----

func (in *Interp) rpcStatusType() *types.Named {
	for _, p := range in.prog.AllPackages() {
		if p.Pkg.Path() == "google.golang.org/genproto/googleapis/rpc/status" {
			if t := p.Type("Status"); t != nil {
				return t.Type().(*types.Named)
			}
		}
	}
	in.unsupported("google.rpc.Status type not loaded")
	return nil
}

func fieldIndex(st *types.Struct, name string) int {
	for i := 0; i < st.NumFields(); i++ {
		if st.Field(i).Name() == name {
			return i
		}
	}
	return -1
}

func init() {
	proto := func(fr *frame, fn *ssa.Function, a []value) value {
		in := fr.in
		st, _ := a[0].(*opaque)
		named := in.rpcStatusType()
		if st == nil {
			return (*value)(nil)
		}
		sv := zero(named.Underlying()).(structure)
		stt := named.Underlying().(*types.Struct)
		switch c := st.code.(type) {
		case uint32:
			sv[fieldIndex(stt, "Code")] = int32(c)
		case *Sym:
			sv[fieldIndex(stt, "Code")] = c
		default:
			sv[fieldIndex(stt, "Code")] = int32(in.asInt64(c))
		}
		msg := st.msg
		if msg == nil {
			msg = ""
		}
		sv[fieldIndex(stt, "Message")] = msg
		if len(st.detail) > 0 {
			sv[fieldIndex(stt, "Details")] = append([]value{}, st.detail...)
		}
		var cell value = sv
		return &cell
	}
	externTable["(*google.golang.org/grpc/internal/status.Status).Proto"] = proto
	externTable["(*google.golang.org/grpc/status.Status).Proto"] = proto
	externTable["google.golang.org/grpc/status.FromProto"] = func(fr *frame, fn *ssa.Function, a []value) value {
		in := fr.in
		p, _ := a[0].(*value)
		if p == nil {
			return &opaque{kind: "status", code: uint32(0), msg: ""}
		}
		sv := (*p).(structure)
		stt := in.rpcStatusType().Underlying().(*types.Struct)
		var code value
		switch c := sv[fieldIndex(stt, "Code")].(type) {
		case int32:
			code = uint32(c)
		default:
			code = c
		}
		o := &opaque{kind: "status", code: code, msg: sv[fieldIndex(stt, "Message")], site: "FromProto"}
		if d, ok := sv[fieldIndex(stt, "Details")].([]value); ok {
			o.detail = append([]value{}, d...)
		}
		return o
	}
}

// ---- ygot.Diff: model over the engine heap graph ----
//
// Diff(original, modified) yields a gNMI Notification whose Update list has one
// element per leaf of `modified` that is absent from or different in `original`,
// and whose Delete list has one element per leaf of `original` absent from
// `modified`.  Only the list LENGTHS are faithful (elements are empty messages;
// a list key that ygot reports under two paths is counted once).

type ygLeaf struct {
	path string // field path with concrete or symbolic map keys rendered positionally
	keys []value
	kt   []types.Type
	val  value
	t    types.Type
}

func (in *Interp) ygLeaves(t types.Type, v value, path string, keys []value, kts []types.Type, out *[]ygLeaf, depth int) {
	if depth > 12 {
		in.unsupported("ygot.Diff model: structure too deep")
	}
	switch u := t.Underlying().(type) {
	case *types.Pointer:
		p, ok := v.(*value)
		if !ok || p == nil {
			return
		}
		if _, isStruct := u.Elem().Underlying().(*types.Struct); isStruct {
			in.ygLeaves(u.Elem(), *p, path, keys, kts, out, depth+1)
			return
		}
		*out = append(*out, ygLeaf{path: path, keys: keys, kt: kts, val: *p, t: u.Elem()})
	case *types.Struct:
		s, ok := v.(structure)
		if !ok {
			return
		}
		for i := 0; i < u.NumFields(); i++ {
			in.ygLeaves(u.Field(i).Type(), s[i], path+"/"+u.Field(i).Name(), keys, kts, out, depth+1)
		}
	case *types.Map:
		m, ok := v.(*smap)
		if !ok || m == nil {
			return
		}
		for _, e := range m.entries {
			in.ygLeaves(u.Elem(), e.val, path+"[]", append(append([]value{}, keys...), e.key), append(append([]types.Type{}, kts...), u.Key()), out, depth+1)
		}
	case *types.Slice:
		s, ok := v.([]value)
		if !ok || s == nil {
			return
		}
		*out = append(*out, ygLeaf{path: path, keys: keys, kt: kts, val: s, t: t})
	case *types.Interface:
		i, ok := v.(iface)
		if !ok || i.t == nil {
			return
		}
		*out = append(*out, ygLeaf{path: path, keys: keys, kt: kts, val: i, t: t})
	case *types.Basic:
		// enumerations: the zero value means unset
		if z, ok := in.equalsV(t, v, zero(t)).(bool); ok && z {
			return
		}
		*out = append(*out, ygLeaf{path: path, keys: keys, kt: kts, val: v, t: t})
	}
}

func (in *Interp) ygSameKeys(a, b ygLeaf) bool {
	if a.path != b.path || len(a.keys) != len(b.keys) {
		return false
	}
	for i := range a.keys {
		c := in.equalsV(a.kt[i], a.keys[i], b.keys[i])
		switch c := c.(type) {
		case bool:
			if !c {
				return false
			}
		case *Sym:
			if !in.decide(c.T) {
				return false
			}
		}
	}
	return true
}

func init() {
	externTable["github.com/openconfig/ygot/ygot.Diff"] = func(fr *frame, fn *ssa.Function, a []value) value {
		in := fr.in
		o, m := a[0].(iface), a[1].(iface)
		var ol, ml []ygLeaf
		if o.t != nil {
			in.ygLeaves(o.t, o.v, "", nil, nil, &ol, 0)
		}
		if m.t != nil {
			in.ygLeaves(m.t, m.v, "", nil, nil, &ml, 0)
		}
		nUpd, nDel := 0, 0
		for _, x := range ml {
			found := false
			for _, y := range ol {
				if in.ygSameKeys(x, y) {
					found = true
					eq := in.deepEqT(x.t, x.val, y.val, nil, 0)
					same, isB := eq.(bool)
					if !isB {
						same = in.decide(eq.(*Sym).T)
					}
					if !same {
						nUpd++
					}
					break
				}
			}
			if !found {
				nUpd++
			}
		}
		for _, y := range ol {
			found := false
			for _, x := range ml {
				if in.ygSameKeys(x, y) {
					found = true
					break
				}
			}
			if !found {
				nDel++
			}
		}
		// build the *gnmi.Notification
		var notif *types.Named
		for _, p := range in.prog.AllPackages() {
			if p.Pkg.Path() == "github.com/openconfig/gnmi/proto/gnmi" {
				if t := p.Type("Notification"); t != nil {
					notif = t.Type().(*types.Named)
				}
			}
		}
		if notif == nil {
			in.unsupported("gnmi.Notification type not loaded")
		}
		st := notif.Underlying().(*types.Struct)
		sv := zero(st).(structure)
		mk := func(field string, n int) {
			i := fieldIndex(st, field)
			elemPtr := st.Field(i).Type().Underlying().(*types.Slice).Elem().Underlying().(*types.Pointer)
			var xs []value
			for k := 0; k < n; k++ {
				var cell value = zero(elemPtr.Elem().Underlying())
				xs = append(xs, &cell)
			}
			sv[i] = xs
		}
		mk("Update", nUpd)
		mk("Delete", nDel)
		var cell value = sv
		return tuple{&cell, iface{}}
	}
}

// equalMethodOf: the (T) Equal(T) bool method of a gribigo type, if it has one.
func (in *Interp) equalMethodOf(t types.Type) *ssa.Function {
	var named *types.Named
	switch tt := t.(type) {
	case *types.Named:
		named = tt
	case *types.Pointer:
		if n, ok := tt.Elem().(*types.Named); ok {
			named = n
		}
	}
	if named == nil || named.Obj().Pkg() == nil || !strings.HasPrefix(named.Obj().Pkg().Path(), "github.com/openconfig/gribigo") {
		return nil
	}
	ms := in.prog.MethodSets.MethodSet(t)
	sel := ms.Lookup(named.Obj().Pkg(), "Equal")
	if sel == nil {
		return nil
	}
	sig, ok := sel.Type().(*types.Signature)
	if !ok || sig.Params().Len() != 1 || sig.Results().Len() != 1 || !types.Identical(sig.Params().At(0).Type(), t) {
		return nil
	}
	if b, ok := sig.Results().At(0).Type().Underlying().(*types.Basic); !ok || b.Kind() != types.Bool {
		return nil
	}
	return in.prog.MethodValue(sel)
}
