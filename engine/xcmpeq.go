package main

// cmp.Equal / cmpopts.IgnoreFields / protocmp.Transform as structural equality
// over the engine's heap graph, typed so that ignored fields can be skipped.

import (
	"go/types"

	"golang.org/x/tools/go/ssa"
)

type ignoreSpec struct {
	typ   types.Type // the struct type (named)
	names map[string]bool
}

func structOf(t types.Type) (*types.Struct, types.Type) {
	if p, ok := t.Underlying().(*types.Pointer); ok {
		t = p.Elem()
	}
	s, _ := t.Underlying().(*types.Struct)
	return s, t
}

func (in *Interp) deepEqT(t types.Type, x, y value, ign []*ignoreSpec, depth int) value {
	if depth > 60 {
		in.unsupported("deepEqT recursion too deep")
	}
	switch u := t.Underlying().(type) {
	case *types.Pointer:
		a, ok1 := x.(*value)
		b, ok2 := y.(*value)
		if !ok1 || !ok2 {
			return in.deepEq(x, y, depth)
		}
		if a == nil || b == nil {
			return a == nil && b == nil
		}
		if a == b {
			return true
		}
		return in.deepEqT(u.Elem(), *a, *b, ign, depth+1)
	case *types.Struct:
		a, ok1 := x.(structure)
		b, ok2 := y.(structure)
		if !ok1 || !ok2 {
			return in.deepEq(x, y, depth)
		}
		var skip map[string]bool
		for _, s := range ign {
			if types.Identical(s.typ, t) {
				skip = s.names
			}
		}
		var acc value = true
		for i := 0; i < u.NumFields(); i++ {
			f := u.Field(i)
			if skip[f.Name()] {
				continue
			}
			// protobuf bookkeeping fields are not part of message equality
			if !f.Exported() && (f.Name() == "state" || f.Name() == "sizeCache" || f.Name() == "unknownFields") {
				continue
			}
			acc = in.andV(acc, in.deepEqT(f.Type(), a[i], b[i], ign, depth+1))
			if r, ok := acc.(bool); ok && !r {
				return false
			}
		}
		return acc
	case *types.Slice:
		a, ok1 := x.([]value)
		b, ok2 := y.([]value)
		if !ok1 || !ok2 {
			return in.deepEq(x, y, depth)
		}
		// cmp.Equal distinguishes nil and empty slices; protocmp / proto.Equal do not: lengths decide
		if len(a) != len(b) {
			return false
		}
		var acc value = true
		for i := range a {
			acc = in.andV(acc, in.deepEqT(u.Elem(), a[i], b[i], ign, depth+1))
			if r, ok := acc.(bool); ok && !r {
				return false
			}
		}
		return acc
	case *types.Interface:
		a, ok1 := x.(iface)
		b, ok2 := y.(iface)
		if !ok1 || !ok2 {
			return in.deepEq(x, y, depth)
		}
		if a.t == nil || b.t == nil {
			return a.t == nil && b.t == nil
		}
		if !types.Identical(a.t, b.t) {
			return false
		}
		return in.deepEqT(a.t, a.v, b.v, ign, depth+1)
	case *types.Basic:
		if isSym(x) || isSym(y) {
			return in.mkSym(types.Typ[types.Bool], in.ts.Eq(in.toTerm(x), in.toTerm(y)))
		}
		return in.equalsV(t, x, y)
	}
	return in.deepEq(x, y, depth)
}

func init() {
	externTable["github.com/google/go-cmp/cmp/cmpopts.IgnoreFields"] = func(fr *frame, fn *ssa.Function, a []value) value {
		t := a[0].(iface).t
		names := map[string]bool{}
		for _, n := range a[1].([]value) {
			names[concStr(fr.in, n, "IgnoreFields name")] = true
		}
		return iface{t: opaqueAnyType, v: &opaque{kind: "cmp-ignore", detail: []value{&ignoreSpec{typ: t, names: names}}}}
	}
	externTable["google.golang.org/protobuf/testing/protocmp.Transform"] = func(fr *frame, fn *ssa.Function, a []value) value {
		return iface{t: opaqueAnyType, v: &opaque{kind: "cmp-transform"}}
	}
	cmpEq := func(fr *frame, a []value) value {
		var ign []*ignoreSpec
		if len(a) > 2 {
			for _, o := range a[2].([]value) {
				if i, ok := o.(iface); ok {
					if op, ok := i.v.(*opaque); ok && op.kind == "cmp-ignore" {
						ign = append(ign, op.detail[0].(*ignoreSpec))
					}
				}
			}
		}
		x, y := a[0].(iface), a[1].(iface)
		if x.t == nil || y.t == nil {
			return x.t == nil && y.t == nil
		}
		if !types.Identical(x.t, y.t) {
			return false
		}
		return fr.in.deepEqT(x.t, x.v, y.v, ign, 0)
	}
	externTable["github.com/google/go-cmp/cmp.Equal"] = func(fr *frame, fn *ssa.Function, a []value) value { return cmpEq(fr, a) }
	externTable["github.com/google/go-cmp/cmp.Diff"] = func(fr *frame, fn *ssa.Function, a []value) value {
		r := cmpEq(fr, a)
		switch r := r.(type) {
		case bool:
			if r {
				return ""
			}
			return "<diff>"
		case *Sym:
			return fr.in.mkSym(types.Typ[types.String], fr.in.ts.Ite(r.T, fr.in.ts.Str(""), fr.in.ts.Str("<diff>")))
		}
		return "<diff>"
	}
}

// ---- *status.Status <-> its protobuf (google.rpc.Status) ----

func (in *Interp) rpcStatusType() *types.Named {
	for _, p := range in.prog.AllPackages() {
		if p.Pkg.Path() == "google.golang.org/genproto/googleapis/rpc/status" {
			if t := p.Type("Status"); t != nil {
				return t.Type().(*types.Named)
			}
		}
	}
	in.unsupported("google.rpc.Status type not loaded")
	return nil
}

func fieldIndex(st *types.Struct, name string) int {
	for i := 0; i < st.NumFields(); i++ {
		if st.Field(i).Name() == name {
			return i
		}
	}
	return -1
}

func init() {
	proto := func(fr *frame, fn *ssa.Function, a []value) value {
		in := fr.in
		st, _ := a[0].(*opaque)
		named := in.rpcStatusType()
		if st == nil {
			return (*value)(nil)
		}
		sv := zero(named.Underlying()).(structure)
		stt := named.Underlying().(*types.Struct)
		switch c := st.code.(type) {
		case uint32:
			sv[fieldIndex(stt, "Code")] = int32(c)
		case *Sym:
			sv[fieldIndex(stt, "Code")] = c
		default:
			sv[fieldIndex(stt, "Code")] = int32(in.asInt64(c))
		}
		msg := st.msg
		if msg == nil {
			msg = ""
		}
		sv[fieldIndex(stt, "Message")] = msg
		if len(st.detail) > 0 {
			sv[fieldIndex(stt, "Details")] = append([]value{}, st.detail...)
		}
		var cell value = sv
		return &cell
	}
	externTable["(*google.golang.org/grpc/internal/status.Status).Proto"] = proto
	externTable["(*google.golang.org/grpc/status.Status).Proto"] = proto
	externTable["google.golang.org/grpc/status.FromProto"] = func(fr *frame, fn *ssa.Function, a []value) value {
		in := fr.in
		p, _ := a[0].(*value)
		if p == nil {
			return &opaque{kind: "status", code: uint32(0), msg: ""}
		}
		sv := (*p).(structure)
		stt := in.rpcStatusType().Underlying().(*types.Struct)
		var code value
		switch c := sv[fieldIndex(stt, "Code")].(type) {
		case int32:
			code = uint32(c)
		default:
			code = c
		}
		o := &opaque{kind: "status", code: code, msg: sv[fieldIndex(stt, "Message")], site: "FromProto"}
		if d, ok := sv[fieldIndex(stt, "Details")].([]value); ok {
			o.detail = append([]value{}, d...)
		}
		return o
	}
}
