package main

// Goroutines as coroutines (one runs at a time), channels, select, mutexes.

import (
	"strings"
	"fmt"
	"go/token"
	"go/types"
	"runtime/debug"

	"golang.org/x/tools/go/ssa"
)

type goroutine struct {
	id       int
	wake     chan struct{}
	done     bool
	ready    func() bool // nil: runnable
	desc     string
	yielding bool
	waitRecv []*schan
	held     map[*lockState]string // "W" or "R"
	site     string
	exited   chan struct{}
	lastRecovered string
}

type sendWait struct {
	v     value
	taken bool
	g     *goroutine
}

type schan struct {
	id     int
	cap    int
	buf    []value
	sendq  []*sendWait
	closed bool
	elem   types.Type
}

type lockState struct {
	id      int
	writer  *goroutine
	readers map[*goroutine]int
	name    string
}

func (in *Interp) newGoroutine(site string) *goroutine {
	g := &goroutine{id: len(in.gs), wake: make(chan struct{}, 1), held: map[*lockState]string{}, site: site, exited: make(chan struct{})}
	in.gs = append(in.gs, g)
	return g
}

func (in *Interp) enabled(g *goroutine) bool {
	if g.done {
		return false
	}
	return g.ready == nil || g.ready()
}

// pickNext selects the goroutine to run when cur cannot continue (or has
// finished).  Deterministic: lowest id among enabled non-yielding goroutines,
// then yielding ones; under a scheduling budget the choice is a decision.
func (in *Interp) pickNext(cur *goroutine) *goroutine {
	var cands, yl []*goroutine
	for _, g := range in.gs {
		if g == cur || !in.enabled(g) {
			continue
		}
		if g.yielding {
			yl = append(yl, g)
		} else {
			cands = append(cands, g)
		}
	}
	if len(cands) == 0 {
		cands = yl
	}
	if len(cands) == 0 {
		return nil
	}
	if len(cands) > 1 && in.schedBudget > 0 {
		return cands[in.choose(len(cands), "sched")]
	}
	return cands[0]
}

func (in *Interp) switchTo(from, to *goroutine) {
	in.cur = to
	to.wake <- struct{}{}
	if from != nil && !from.done {
		<-from.wake
		if in.killed {
			panic(pathAbort{kind: "killed"})
		}
		in.cur = from
	}
}

// block suspends g until ready() holds.
func (in *Interp) block(g *goroutine, desc string, ready func() bool) {
	if g == nil {
		g = in.cur
	}
	for !ready() {
		g.ready, g.desc = ready, desc
		next := in.pickNext(g)
		if next == nil {
			panic(pathAbort{kind: "deadlock", msg: in.deadlockReport()})
		}
		in.switchTo(g, next)
	}
	g.ready, g.desc = nil, ""
	g.waitRecv = nil
}

// preemptPoint optionally switches to another goroutine at a synchronisation
// operation (context-bounded).
func (in *Interp) preemptPoint(g *goroutine) {
	if in.schedBudget <= 0 || g == nil {
		return
	}
	var others []*goroutine
	for _, o := range in.gs {
		if o != g && in.enabled(o) && !o.yielding {
			others = append(others, o)
		}
	}
	if len(others) == 0 {
		return
	}
	k := in.choose(len(others)+1, "preempt")
	if k == 0 {
		return
	}
	in.schedBudget--
	in.switchTo(g, others[k-1])
}

func (in *Interp) deadlockReport() string {
	s := "all goroutines blocked:"
	for _, g := range in.gs {
		if g.done {
			continue
		}
		s += fmt.Sprintf(" [g%d %s: %s holding %d locks]", g.id, g.site, g.desc, len(g.held))
	}
	return s
}

// quiesce lets every other goroutine run until none is enabled; returns the
// number of goroutines left blocked.
func (in *Interp) quiesce(g *goroutine) int {
	for {
		var next *goroutine
		for _, o := range in.gs {
			if o != g && in.enabled(o) {
				next = o
				break
			}
		}
		if next == nil {
			break
		}
		g.yielding = true
		g.ready = func() bool { return true }
		next = in.pickNext(g)
		in.switchTo(g, next)
		g.yielding = false
		g.ready = nil
	}
	n := 0
	for _, o := range in.gs {
		if o != g && !o.done {
			n++
		}
	}
	return n
}

func (in *Interp) blockedHoldingLocks(self *goroutine) int {
	n := 0
	for _, o := range in.gs {
		if o != self && !o.done && len(o.held) > 0 {
			n++
		}
	}
	return n
}

func (in *Interp) spawn(fr *frame, pos token.Pos, fn value, args []value) {
	site := ""
	if fr != nil {
		site = in.prog.Fset.Position(pos).String()
	}
	g := in.newGoroutine(site)
	in.w.hostWG.Add(1)
	go in.goroutineMain(g, func() { in.callTop(g, fn, args) })
}

func (in *Interp) callTop(g *goroutine, fn value, args []value) {
	top := &frame{in: in, g: g}
	switch f := fn.(type) {
	case *ssa.Function:
		in.callSSAg(top, f, args, nil)
	case *closure:
		in.callSSAg(top, f.Fn, args, f.Env)
	default:
		in.call(top, 0, fn, args)
	}
}

// callSSAg calls with an explicit top frame carrying the goroutine.
func (in *Interp) callSSAg(top *frame, fn *ssa.Function, args []value, env []value) value {
	return in.callSSA(top, 0, fn, args, env)
}

// goroutineMain is the host goroutine body for an interpreted goroutine.
func (in *Interp) goroutineMain(g *goroutine, body func()) {
	defer in.w.hostWG.Done()
	defer close(g.exited)
	<-g.wake
	if in.killed {
		return
	}
	in.cur = g
	var abort *pathAbort
	func() {
		defer func() {
			if r := recover(); r != nil {
				switch r := r.(type) {
				case pathAbort:
					abort = &r
				case targetPanic:
					w := ""
					if r.where != nil {
						w = " in " + *r.where
					}
					abort = &pathAbort{kind: "panic", msg: "unrecovered panic: " + toString(r.v) + w}
				default:
					abort = &pathAbort{kind: "engine-error", msg: fmt.Sprintf("%v\n%s", r, trimStack(debug.Stack()))}
				}
			}
		}()
		body()
	}()
	g.done = true
	if abort != nil {
		if abort.kind == "killed" {
			return
		}
		in.endPath(abort.kind, abort.msg)
		return
	}
	// release: a goroutine that exits holding locks keeps them (as in Go)
	if g.id == 0 {
		in.endPath("end", "")
		return
	}
	next := in.pickNext(g)
	if next == nil {
		// nobody can run: main is blocked forever
		in.endPath("deadlock", in.deadlockReport())
		return
	}
	in.switchTo(g, next)
}

func (in *Interp) endPath(outcome, msg string) {
	if in.killed {
		return
	}
	in.killed = true
	in.res.Outcome = outcome
	in.res.Msg = msg
	for _, g := range in.gs {
		if !g.done && g != in.cur {
			select {
			case g.wake <- struct{}{}:
			default:
			}
		}
	}
	close(in.w.pathDone)
}

// ---- channels ----

func (in *Interp) newChan(capacity int, elem types.Type) *schan {
	in.chanSeq++
	return &schan{id: in.chanSeq, cap: capacity, elem: elem}
}

func (ch *schan) canRecv() bool { return len(ch.buf) > 0 || len(ch.sendq) > 0 || ch.closed }

func (in *Interp) hasBlockedReceiver(ch *schan, self *goroutine) bool {
	for _, g := range in.gs {
		if g == self || g.done || g.ready == nil {
			continue
		}
		for _, c := range g.waitRecv {
			if c == ch {
				return true
			}
		}
	}
	return false
}

func (in *Interp) chanSend(g *goroutine, chv value, v value) {
	if g == nil {
		g = in.cur
	}
	ch := chv.(*schan)
	in.preemptPoint(g)
	if ch == nil {
		in.block(g, "send on nil channel", func() bool { return false })
	}
	if ch.closed {
		panic(targetPanic{v: "send on closed channel"})
	}
	if len(ch.buf) < ch.cap {
		ch.buf = append(ch.buf, v)
		return
	}
	offer := &sendWait{v: v, g: g}
	ch.sendq = append(ch.sendq, offer)
	in.block(g, fmt.Sprintf("chan send (chan %d)", ch.id), func() bool { return offer.taken || ch.closed })
	if !offer.taken && ch.closed {
		panic(targetPanic{v: "send on closed channel"})
	}
	in.preemptPoint(g)
}

func (in *Interp) chanTake(ch *schan) (value, bool) {
	if len(ch.buf) > 0 {
		v := ch.buf[0]
		ch.buf = ch.buf[1:]
		if len(ch.sendq) > 0 {
			o := ch.sendq[0]
			ch.sendq = ch.sendq[1:]
			o.taken = true
			ch.buf = append(ch.buf, o.v)
		}
		return v, true
	}
	if len(ch.sendq) > 0 {
		o := ch.sendq[0]
		ch.sendq = ch.sendq[1:]
		o.taken = true
		return o.v, true
	}
	return zero(ch.elem), false // closed
}

func (in *Interp) chanRecv(g *goroutine, chv value, commaOk bool, elem types.Type) value {
	if g == nil {
		g = in.cur
	}
	ch := chv.(*schan)
	in.preemptPoint(g)
	if ch == nil {
		in.block(g, "receive on nil channel", func() bool { return false })
	}
	if !ch.canRecv() {
		g.waitRecv = []*schan{ch}
		in.block(g, fmt.Sprintf("chan receive (chan %d)", ch.id), ch.canRecv)
	}
	v, ok := in.chanTake(ch)
	in.preemptPoint(g) // after the operation: the partner goroutine is runnable too
	if commaOk {
		return tuple{v, ok}
	}
	return v
}

func (in *Interp) chanClose(g *goroutine, chv value) {
	ch := chv.(*schan)
	if ch == nil {
		panic(targetPanic{v: "close of nil channel"})
	}
	if ch.closed {
		panic(targetPanic{v: "close of closed channel"})
	}
	ch.closed = true
}

func (in *Interp) selectStmt(g *goroutine, instr *ssa.Select, fr *frame) value {
	if g == nil {
		g = in.cur
	}
	in.preemptPoint(g)
	type st struct {
		ch   *schan
		send bool
		v    value
	}
	states := make([]st, len(instr.States))
	for i, s := range instr.States {
		states[i].ch, _ = fr.get(s.Chan).(*schan)
		states[i].send = s.Dir == types.SendOnly
		if s.Send != nil {
			states[i].v = fr.get(s.Send)
		}
	}
	readyIdx := func() []int {
		var r []int
		for i, s := range states {
			if s.ch == nil {
				continue
			}
			if s.send {
				if s.ch.closed || len(s.ch.buf) < s.ch.cap || in.hasBlockedReceiver(s.ch, g) {
					r = append(r, i)
				}
			} else if s.ch.canRecv() {
				r = append(r, i)
			}
		}
		return r
	}
	r := readyIdx()
	chosen := -1
	if len(r) == 0 {
		if instr.Blocking {
			var wr []*schan
			for _, s := range states {
				if !s.send && s.ch != nil {
					wr = append(wr, s.ch)
				}
			}
			g.waitRecv = wr
			in.block(g, "select", func() bool { return len(readyIdx()) > 0 })
			r = readyIdx()
		}
	}
	if len(r) > 0 {
		k := 0
		if len(r) > 1 && in.schedBudget > 0 {
			k = in.choose(len(r), "select")
		}
		chosen = r[k]
	}
	var recvVal value
	recvOk := false
	if chosen >= 0 {
		s := states[chosen]
		if s.send {
			in.chanSendNoPreempt(g, s.ch, s.v)
		} else {
			recvVal, recvOk = in.chanTake(s.ch)
		}
	}
	if chosen >= 0 {
		in.preemptPoint(g)
	}
	res := tuple{chosen, recvOk}
	for i, s := range instr.States {
		if s.Dir == types.RecvOnly {
			var v value
			if i == chosen && recvOk {
				v = recvVal
			} else {
				v = zero(s.Chan.Type().Underlying().(*types.Chan).Elem())
			}
			res = append(res, v)
		}
	}
	return res
}

func (in *Interp) chanSendNoPreempt(g *goroutine, ch *schan, v value) {
	if ch.closed {
		panic(targetPanic{v: "send on closed channel"})
	}
	if len(ch.buf) < ch.cap {
		ch.buf = append(ch.buf, v)
		return
	}
	offer := &sendWait{v: v, g: g}
	ch.sendq = append(ch.sendq, offer)
	in.block(g, fmt.Sprintf("chan send in select (chan %d)", ch.id), func() bool { return offer.taken || ch.closed })
}

// ---- locks ----

func (in *Interp) lockOf(p *value) *lockState {
	l := in.locks[p]
	if l == nil {
		l = &lockState{id: len(in.locks), readers: map[*goroutine]int{}}
		l.name = fmt.Sprintf("mutex%d", l.id)
		if li := in.locs[p]; li != nil {
			l.name = li.desc
		}
		in.locks[p] = l
	}
	return l
}

func (in *Interp) lock(g *goroutine, p *value, write bool) {
	if g == nil {
		g = in.cur
	}
	if p == nil {
		tpanic("nil pointer dereference (mutex)")
	}
	l := in.lockOf(p)
	in.preemptPoint(g)
	if in.accessLog && in.role != "" {
		mode := "R"
		if write {
			mode = "W"
		}
		for h, hm := range g.held {
			if h == l && hm == "R" && !write {
				// recursive read locking: "if a goroutine holds a RWMutex for reading and another goroutine might call
				// Lock, no goroutine should expect to be able to acquire a read lock until the initial read lock is
				// released" (sync.RWMutex) - a writer arriving in between wedges both
				key := in.role + "|" + l.name + ":R->R"
				if _, ok := in.w.lockEdges[key]; !ok {
					in.w.lockEdges[key] = &lockEdge{Role: in.role, Held: l.name, HeldMode: "R", Want: l.name, WantMode: "R"}
				}
			}
			if h != l {
				key := in.role + "|" + h.name + ":" + hm + "->" + l.name + ":" + mode
				if _, ok := in.w.lockEdges[key]; !ok {
					in.w.lockEdges[key] = &lockEdge{Role: in.role, Held: h.name, HeldMode: hm, Want: l.name, WantMode: mode}
				}
			}
		}
	}
	if write {
		if !(l.writer == nil && len(l.readers) == 0) {
			in.block(g, fmt.Sprintf("Lock(mutex %d)", l.id), func() bool { return l.writer == nil && len(l.readers) == 0 })
		}
		l.writer = g
		g.held[l] = "W"
	} else {
		if l.writer != nil {
			in.block(g, fmt.Sprintf("RLock(mutex %d)", l.id), func() bool { return l.writer == nil })
		}
		l.readers[g]++
		g.held[l] = "R"
	}
}

func (in *Interp) unlock(g *goroutine, p *value, write bool) {
	if g == nil {
		g = in.cur
	}
	l := in.lockOf(p)
	if write {
		if l.writer == nil {
			panic(targetPanic{v: "fatal error: sync: Unlock of unlocked RWMutex"})
		}
		if l.writer != nil {
			delete(l.writer.held, l)
		}
		l.writer = nil
	} else {
		if len(l.readers) == 0 {
			panic(targetPanic{v: "fatal error: sync: RUnlock of unlocked RWMutex"})
		}
		h := g
		if l.readers[h] == 0 {
			for o := range l.readers {
				h = o
				break
			}
		}
		l.readers[h]--
		if l.readers[h] == 0 {
			delete(l.readers, h)
			delete(h.held, l)
		}
	}
}

type lockEdge struct {
	Role, Held, HeldMode, Want, WantMode string
}

// lockCycles: two roles acquiring two mutexes in opposite order where each wanted mode conflicts with the
// other's held mode (a write on either side).  The two roles belong to different groups, or to one group
// of callers that run concurrently with themselves (two Get readers, two Flush callers: any group that is
// not a session - a session's handlers run one after the other).
func lockCycles(edges []*lockEdge) []string {
	var out []string
	seen := map[string]bool{}
	// recursive read locks: dangerous as soon as any role write-locks the same mutex
	for _, a := range edges {
		if a.Held != a.Want || a.HeldMode != "R" || a.WantMode != "R" {
			continue
		}
		for _, b := range edges {
			if (b.Want == a.Held && b.WantMode == "W") || (b.Held == a.Held && b.HeldMode == "W") {
				k := "rr:" + a.Held
				if !seen[k] {
					seen[k] = true
					out = append(out, fmt.Sprintf("%s holds %s(R) wants %s(R); %s holds %s(%s) wants %s(%s)", a.Role, a.Held, a.Want, b.Role, b.Held, b.HeldMode, b.Want, b.WantMode))
				}
			}
		}
	}
	for _, a := range edges {
		for _, b := range edges {
			if a == b || a.Held != b.Want || a.Want != b.Held || a.Held == a.Want || b.Held == b.Want {
				continue
			}
			if roleGroup(a.Role) == roleGroup(b.Role) && strings.HasPrefix(a.Role, "session-") {
				continue
			}
			conflict := func(want, held string) bool { return want == "W" || held == "W" }
			if !(conflict(a.WantMode, b.HeldMode) && conflict(b.WantMode, a.HeldMode)) {
				continue
			}
			k := a.Held + "<->" + a.Want
			if a.Want < a.Held {
				k = a.Want + "<->" + a.Held
			}
			if seen[k] {
				continue
			}
			seen[k] = true
			out = append(out, fmt.Sprintf("%s holds %s(%s) wants %s(%s); %s holds %s(%s) wants %s(%s)", a.Role, a.Held, a.HeldMode, a.Want, a.WantMode, b.Role, b.Held, b.HeldMode, b.Want, b.WantMode))
		}
	}
	return out
}
