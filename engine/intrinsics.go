package main

// The vf* harness API as seen by the engine.

import (
	"sync"
	"fmt"
	"go/types"
	"math/big"
	"sort"
	"strings"
	"net/netip"
	"regexp"
	"strconv"

	"golang.org/x/tools/go/ssa"
)

type accessRec struct {
	Role  string
	Loc   string
	Write bool
	Locks string
	Where string
}

// ---- access log for the lock-discipline analysis (C11) ----

type locInfo struct {
	desc string
	root int // allocation sequence number of the root object
}

func (in *Interp) trackAlloc(p *value, t types.Type) {
	if !in.trackHeap {
		return
	}
	in.allocSeq++
	in.locs[p] = &locInfo{desc: fmt.Sprintf("obj%d(%s)", in.allocSeq, shortType(t)), root: in.allocSeq}
}

func shortType(t types.Type) string {
	s := types.TypeString(t, func(p *types.Package) string { return p.Name() })
	if len(s) > 60 {
		s = s[:60]
	}
	return s
}

func (in *Interp) trackField(parent, child *value, name string) {
	if !in.trackHeap {
		return
	}
	if li := in.locs[parent]; li != nil {
		if _, ok := in.locs[child]; !ok {
			in.locs[child] = &locInfo{desc: li.desc + "." + name, root: li.root}
		}
	}
}

func (in *Interp) heldString(g *goroutine) string {
	if g == nil {
		g = in.cur
	}
	var ls []string
	for l, mode := range g.held {
		ls = append(ls, l.name+":"+mode)
	}
	sort.Strings(ls)
	return strings.Join(ls, ",")
}

func (in *Interp) logAccess(fr *frame, desc string, root int, write bool) {
	if !in.accessLog || in.role == "" || root > in.sharedSeq {
		return
	}
	where := fr.fn.String()
	if fr.cur != nil {
		pos := in.prog.Fset.Position(fr.cur.Pos())
		where += fmt.Sprintf(" (%s:%d)", filepathBase(pos.Filename), pos.Line)
	}
	key := in.role + "|" + desc + "|" + fmt.Sprint(write) + "|" + in.heldString(fr.g)
	if _, ok := in.w.accesses[key]; !ok {
		in.w.accesses[key] = &accessRec{Role: in.role, Loc: desc, Write: write, Locks: in.heldString(fr.g), Where: where}
	}
}

func filepathBase(p string) string {
	if i := strings.LastIndex(p, "/"); i >= 0 {
		return p[i+1:]
	}
	return p
}

func (in *Interp) noteAccess(fr *frame, p *value, write bool) {
	if !in.accessLog {
		return
	}
	if li := in.locs[p]; li != nil {
		in.logAccess(fr, li.desc, li.root, write)
	}
}

func (in *Interp) noteMapAccess(fr *frame, m *smap, write bool) {
	if !in.accessLog || m == nil || m.id == 0 {
		return
	}
	in.logAccess(fr, fmt.Sprintf("map%d(%s)", m.id, shortType(m.t)), m.id, write)
}

func (in *Interp) sleep(g *goroutine, d int64) {
	// time.Sleep is a scheduling point: let others run, then continue.
	if g == nil {
		g = in.cur
	}
	if d > 0 {
		in.vclock += d
	}
	var next *goroutine
	for _, o := range in.gs {
		if o != g && in.enabled(o) {
			next = o
			break
		}
	}
	if next == nil {
		// Nothing else can run: a polling loop.  With a registered deadline still ahead, virtual
		// time jumps to it (timeouts fire only when no goroutine can make progress otherwise).
		var nd int64 = -1
		for _, t := range in.vdeadlines {
			if t > in.vclock && (nd < 0 || t < nd) {
				nd = t
			}
		}
		if nd >= 0 {
			in.vclock = nd
			return
		}
	}
	in.sleeps++
	lim := in.w.cfg.MaxSleeps
	if lim == 0 {
		lim = in.w.cfg.Unwind * 4
	}
	if in.sleeps > lim {
		panic(pathAbort{kind: "unwinding", msg: "too many time.Sleep calls (polling loop?)"})
	}
	if next == nil {
		return
	}
	g.yielding = true
	g.ready = func() bool { return true }
	next = in.pickNext(g)
	in.switchTo(g, next)
	g.yielding = false
	g.ready = nil
}

func (in *Interp) concreteInput(name string) (string, bool) {
	if in.concreteIn == nil {
		return "", false
	}
	vs := in.concreteIn[name]
	n := in.inputCount["@c:"+name]
	in.inputCount["@c:"+name] = n + 1
	if n < len(vs) {
		return vs[n], true
	}
	return "", true // missing => zero value
}

func vfIntrinsic(fn *ssa.Function, base string) extFn {
	mkInt := func(kind string, w int, t types.Type) extFn {
		return func(fr *frame, a []value) value {
			in := fr.in
			name := concStr(in, a[0], base+" name")
			if s, ok := in.concreteInput(name); ok {
				u, _ := strconv.ParseUint(s, 10, 64)
				return fromConst(t, in.ts.BV(u, w))
			}
			return &Sym{T: in.newInput(name, kind, bvSort(w))}
		}
	}
	switch base {
	case "vfVNow":
		return func(fr *frame, a []value) value { return fr.in.vclock }
	case "vfVDeadline":
		return func(fr *frame, a []value) value {
			fr.in.vdeadlines = append(fr.in.vdeadlines, fr.in.asInt64(a[0]))
			return nil
		}
	case "vfU64":
		return mkInt("u64", 64, types.Typ[types.Uint64])
	case "vfU32":
		return mkInt("u32", 32, types.Typ[types.Uint32])
	case "vfU8":
		return mkInt("u8", 8, types.Typ[types.Uint8])
	case "vfI32":
		return mkInt("i32", 32, types.Typ[types.Int32])
	case "vfInt":
		// vfInt(name, lo, hi): an int in [lo,hi]
		return func(fr *frame, a []value) value {
			in := fr.in
			name := concStr(in, a[0], "vfInt name")
			lo, hi := in.asInt64(a[1]), in.asInt64(a[2])
			if s, ok := in.concreteInput(name); ok {
				i, _ := strconv.ParseInt(s, 10, 64)
				return int(i)
			}
			v := in.newInput(name, "int", bvSort(64))
			in.assumeTerm(in.ts.BVOp("bvsle", in.ts.BV(uint64(lo), 64), v))
			in.assumeTerm(in.ts.BVOp("bvsle", v, in.ts.BV(uint64(hi), 64)))
			// enumerate: small ranges are used as selectors
			for i := lo; i < hi; i++ {
				if in.decide(in.ts.Eq(v, in.ts.BV(uint64(i), 64))) {
					return int(i)
				}
			}
			return int(hi)
		}
	case "vfBool":
		return func(fr *frame, a []value) value {
			in := fr.in
			name := concStr(in, a[0], "vfBool name")
			if s, ok := in.concreteInput(name); ok {
				return s == "true"
			}
			return &Sym{T: in.newInput(name, "bool", sortBool)}
		}
	case "vfStr", "vfStrK":
		return func(fr *frame, a []value) value {
			in := fr.in
			name := concStr(in, a[0], "vfStr name")
			kind := "str"
			if base == "vfStrK" {
				kind = "str:" + concStr(in, a[1], "vfStrK kind")
			}
			if s, ok := in.concreteInput(name); ok {
				return s
			}
			v := in.newInput(name, kind, sortStr)
			if b, ok := strKindBase[strings.TrimPrefix(kind, "str:")]; !ok {
				// free strings live in block 0, together with the interned concrete strings
				hi := in.ts.mk("const", sortStr, nil, "", big.NewInt(1<<24))
				in.assumeTerm(in.ts.mk("<", sortBool, []*Term{v, hi}, "", nil))
			} else {
				{
					lo := in.ts.mk("const", sortStr, nil, "", big.NewInt(b))
					hi := in.ts.mk("const", sortStr, nil, "", big.NewInt(b+1<<24))
					in.assumeTerm(in.ts.mk("<=", sortBool, []*Term{lo, v}, "", nil))
					in.assumeTerm(in.ts.mk("<", sortBool, []*Term{v, hi}, "", nil))
				}
			}
			return &Sym{T: v}
		}
	case "vfAssume":
		return func(fr *frame, a []value) value {
			fr.in.assumeTerm(asBoolTerm(fr.in, a[0]))
			return nil
		}
	case "vfAssert":
		return func(fr *frame, a []value) value {
			fr.in.assertTerm(asBoolTerm(fr.in, a[0]), concStr(fr.in, a[1], "label"), "", nil)
			return nil
		}
	case "vfAssertK":
		return func(fr *frame, a []value) value {
			fr.in.assertTerm(asBoolTerm(fr.in, a[0]), concStr(fr.in, a[1], "label"), concStr(fr.in, a[2], "kf id"), asBoolTerm(fr.in, a[3]))
			return nil
		}
	case "vfReach":
		return func(fr *frame, a []value) value {
			fr.in.res.Reach[concStr(fr.in, a[0], "label")]++
			return nil
		}
	case "vfAnd":
		return func(fr *frame, a []value) value { return fr.in.andV(a[0], a[1]) }
	case "vfOr":
		return func(fr *frame, a []value) value { return fr.in.orV(a[0], a[1]) }
	case "vfNot":
		return func(fr *frame, a []value) value { return fr.in.notV(a[0]) }
	case "vfImplies":
		return func(fr *frame, a []value) value { return fr.in.orV(fr.in.notV(a[0]), a[1]) }
	case "vfB2I":
		return func(fr *frame, a []value) value {
			in := fr.in
			if b, ok := a[0].(bool); ok {
				if b {
					return uint64(1)
				}
				return uint64(0)
			}
			return in.mkSym(types.Typ[types.Uint64], in.ts.Ite(a[0].(*Sym).T, in.ts.BV(1, 64), in.ts.BV(0, 64)))
		}
	case "vfIte64", "vfIteStr", "vfIteBool", "vfIte32":
		return func(fr *frame, a []value) value {
			in := fr.in
			if b, ok := a[0].(bool); ok {
				if b {
					return a[1]
				}
				return a[2]
			}
			return in.mkSym(fn.Signature.Results().At(0).Type(), in.ts.Ite(a[0].(*Sym).T, in.toTerm(a[1]), in.toTerm(a[2])))
		}
	case "vfMapOrder":
		return func(fr *frame, a []value) value {
			fr.in.mapOrderNondet = a[0].(bool)
			return nil
		}
	case "vfSched":
		return func(fr *frame, a []value) value {
			fr.in.schedBudget = int(fr.in.asInt64(a[0]))
			return nil
		}
	case "vfCalib":
		return func(fr *frame, a []value) value {
			n := concStr(fr.in, a[0], "calibration fact")
			v, ok := fr.in.w.cfg.Calib[n]
			if !ok {
				fr.in.unsupported("calibration fact %q was not measured", n)
			}
			return v
		}
	case "vfTrackHeap":
		return func(fr *frame, a []value) value {
			fr.in.trackHeap = true
			return nil
		}
	case "vfRole":
		// vfRole(name): accesses to objects that existed before the first call are logged under this role
		return func(fr *frame, a []value) value {
			in := fr.in
			if !in.accessLog {
				in.accessLog = true
				in.sharedSeq = in.allocSeq
			}
			in.role = concStr(in, a[0], "role")
			return nil
		}
	case "vfSymbolic":
		return func(fr *frame, a []value) value { return fr.in.concreteIn == nil }
	case "vfEngine":
		return func(fr *frame, a []value) value { return true }
	case "vfObserve":
		return func(fr *frame, a []value) value {
			fr.in.observeLog = append(fr.in.observeLog, concStr(fr.in, a[0], "name")+"="+observeString(a[1]))
			return nil
		}
	case "vfQuiesce":
		return func(fr *frame, a []value) value { return fr.in.quiesce(fr.g) }
	case "vfBlockedHolding":
		return func(fr *frame, a []value) value { return fr.in.blockedHoldingLocks(fr.g) }
	case "vfStatusCode":
		return func(fr *frame, a []value) value {
			e := a[0].(iface)
			if e.t == nil {
				return uint32(0)
			}
			st, ok := statusOf(e)
			if !ok {
				return uint32(2) // codes.Unknown
			}
			return st.code
		}
	case "vfStatusReason":
		// reason enum of the first ModifyRPCErrorDetails / FlushResponseError detail, -1 if none
		return func(fr *frame, a []value) value {
			e := a[0].(iface)
			st, ok := statusOf(e)
			if !ok {
				return int32(-1)
			}
			for _, d := range st.detail {
				di, ok := d.(iface)
				if !ok {
					continue
				}
				p, ok := di.v.(*value)
				if !ok || p == nil {
					continue
				}
				s, ok := (*p).(structure)
				if !ok {
					continue
				}
				// generated messages: state, [unknownFields], fields..., sizeCache; find the enum field by type
				named, _ := mustDerefNamed(di.t)
				if named == nil {
					continue
				}
				stt := named.Underlying().(*types.Struct)
				for i := 0; i < stt.NumFields(); i++ {
					f := stt.Field(i)
					if f.Name() == "Reason" || f.Name() == "Status" {
						return s[i]
					}
				}
			}
			return int32(-1)
		}
	case "vfValidPrefix4", "vfValidPrefix6":
		return func(fr *frame, a []value) value {
			s, ok := a[0].(string)
			if !ok {
				return true // symbolic prefixes are rendered as valid prefixes of their kind
			}
			if base == "vfValidPrefix4" {
				return validPrefix4(s)
			}
			return validPrefix6(s)
		}
	case "vfReMatch":
		// vfReMatch(pattern, s, kind): POSIX-syntax match as ytypes does it.  Concrete s: decided by the host's
		// regexp package.  Symbolic s: strings of a kind are rendered as members of that kind, so the answer is
		// "kind of s == kind"; a free symbolic string is unsupported.
		return func(fr *frame, a []value) value {
			in := fr.in
			pat := concStr(in, a[0], "vfReMatch pattern")
			kind := concStr(in, a[2], "vfReMatch kind")
			if s, ok := a[1].(string); ok {
				var re *regexp.Regexp
				if c, ok := posixReCache.Load(pat); ok {
					re = c.(*regexp.Regexp)
				} else {
					re = regexp.MustCompilePOSIX(pat)
					posixReCache.Store(pat, re)
				}
				return re.MatchString(s)
			}
			sym, ok := a[1].(*Sym)
			if !ok {
				in.unsupported("vfReMatch on %T", a[1])
			}
			for _, r := range in.inputs {
				if r.term == sym.T {
					if r.kind == "str:"+kind {
						return true
					}
					if _, kinded := strKindBase[strings.TrimPrefix(r.kind, "str:")]; kinded || r.kind == "str:ni" {
						return false
					}
				}
			}
			in.unsupported("pattern match on a free symbolic string")
			return false
		}
	case "vfModelUnsupported":
		return func(fr *frame, a []value) value {
			fr.in.unsupported("model does not cover: %v", a[0])
			return nil
		}
	case "vfErrIsOpaque":
		return func(fr *frame, a []value) value { return true }
	}
	return nil
}

var posixReCache sync.Map

var re4 = regexp.MustCompile(`^(([0-9]|[1-9][0-9]|1[0-9][0-9]|2[0-4][0-9]|25[0-5])\.){3}([0-9]|[1-9][0-9]|1[0-9][0-9]|2[0-4][0-9]|25[0-5])/([0-9]|[1-2][0-9]|3[0-2])$`)

func validPrefix4(s string) bool { return re4.MatchString(s) }
func validPrefix6(s string) bool {
	p, err := netip.ParsePrefix(s)
	return err == nil && p.Addr().Is6() && !p.Addr().Is4In6() && p.Addr().Zone() == ""
}

func mustDerefNamed(t types.Type) (*types.Named, bool) {
	if p, ok := t.Underlying().(*types.Pointer); ok {
		t = p.Elem()
	}
	n, ok := t.(*types.Named)
	return n, ok
}

func observeString(v value) string {
	if i, ok := v.(iface); ok {
		if i.t == nil {
			return "<nil>"
		}
		v = i.v
	}
	switch x := v.(type) {
	case string:
		return x
	case bool, int, int8, int16, int32, int64, uint, uint8, uint16, uint32, uint64:
		return fmt.Sprint(x)
	case *Sym:
		return "<sym>"
	}
	return toString(v)
}
