package main

// Hash-consed SMT terms.  One TermStore per worker (no locking).

import (
	"fmt"
	"math/big"
	"sort"
	"strconv"
	"strings"
)

type SortKind int

const (
	SBool SortKind = iota
	SBV
	SStr // equality-only strings, encoded as Int
)

type Sort struct {
	K SortKind
	W int // width for SBV
}

func (s Sort) String() string {
	switch s.K {
	case SBool:
		return "Bool"
	case SBV:
		return fmt.Sprintf("(_ BitVec %d)", s.W)
	default:
		return "Int"
	}
}

var (
	sortBool = Sort{K: SBool}
	sortStr  = Sort{K: SStr}
)

func bvSort(w int) Sort { return Sort{K: SBV, W: w} }

type Term struct {
	id   int
	op   string // "var", "const", or SMT operator (possibly indexed, e.g. "(_ extract 31 0)")
	args []*Term
	sort Sort
	name string   // for var
	val  *big.Int // for const (BV: unsigned value; Bool: 0/1; Str: intern index)
	vars []int    // sorted ids of the variables occurring in the term
}

func (t *Term) IsConst() bool { return t.op == "const" }
func (t *Term) IsTrue() bool  { return t.op == "const" && t.sort.K == SBool && t.val.Sign() != 0 }
func (t *Term) IsFalse() bool { return t.op == "const" && t.sort.K == SBool && t.val.Sign() == 0 }

type TermStore struct {
	table   map[string]*Term
	nextID  int
	vars    []*Term
	strs    map[string]int // interned concrete strings -> index
	strList []string
	tru     *Term
	fls     *Term
}

func NewTermStore() *TermStore {
	ts := &TermStore{table: map[string]*Term{}, strs: map[string]int{}}
	ts.tru = ts.mk("const", sortBool, nil, "", big.NewInt(1))
	ts.fls = ts.mk("const", sortBool, nil, "", big.NewInt(0))
	ts.InternStr("") // index 0 is the empty string
	return ts
}

func (ts *TermStore) mk(op string, s Sort, args []*Term, name string, val *big.Int) *Term {
	var sb strings.Builder
	sb.WriteString(op)
	sb.WriteByte('|')
	sb.WriteString(strconv.Itoa(int(s.K)))
	sb.WriteByte(':')
	sb.WriteString(strconv.Itoa(s.W))
	sb.WriteByte('|')
	sb.WriteString(name)
	if val != nil {
		sb.WriteByte('#')
		sb.WriteString(val.String())
	}
	for _, a := range args {
		sb.WriteByte(',')
		sb.WriteString(strconv.Itoa(a.id))
	}
	key := sb.String()
	if t, ok := ts.table[key]; ok {
		return t
	}
	t := &Term{id: ts.nextID, op: op, args: args, sort: s, name: name, val: val}
	ts.nextID++
	if op == "var" {
		t.vars = []int{t.id}
	} else {
		for _, a := range args {
			t.vars = mergeSorted(t.vars, a.vars)
		}
	}
	ts.table[key] = t
	if op == "var" {
		ts.vars = append(ts.vars, t)
	}
	return t
}

func (ts *TermStore) Var(name string, s Sort) *Term { return ts.mk("var", s, nil, name, nil) }

func (ts *TermStore) Bool(b bool) *Term {
	if b {
		return ts.tru
	}
	return ts.fls
}

func (ts *TermStore) BV(v uint64, w int) *Term {
	x := new(big.Int).SetUint64(v)
	if w < 64 {
		x.And(x, new(big.Int).SetUint64((uint64(1)<<uint(w))-1))
	}
	return ts.mk("const", bvSort(w), nil, "", x)
}

func (ts *TermStore) InternStr(s string) int {
	if i, ok := ts.strs[s]; ok {
		return i
	}
	i := len(ts.strList)
	ts.strs[s] = i
	ts.strList = append(ts.strList, s)
	return i
}

func (ts *TermStore) Str(s string) *Term {
	return ts.mk("const", sortStr, nil, "", big.NewInt(int64(ts.InternStr(s))))
}

func mask(w int) uint64 {
	if w >= 64 {
		return ^uint64(0)
	}
	return (uint64(1) << uint(w)) - 1
}

func sext(v uint64, w int) int64 {
	if w >= 64 {
		return int64(v)
	}
	sh := uint(64 - w)
	return int64(v<<sh) >> sh
}

// ---- Boolean constructors with light simplification ----

func (ts *TermStore) Not(a *Term) *Term {
	if a.IsConst() {
		return ts.Bool(!a.IsTrue())
	}
	if a.op == "not" {
		return a.args[0]
	}
	return ts.mk("not", sortBool, []*Term{a}, "", nil)
}

func (ts *TermStore) And(xs ...*Term) *Term {
	var out []*Term
	seen := map[*Term]bool{}
	for _, x := range xs {
		if x.IsFalse() {
			return ts.fls
		}
		if x.IsTrue() || seen[x] {
			continue
		}
		if seen[ts.Not(x)] {
			return ts.fls
		}
		seen[x] = true
		if x.op == "and" {
			for _, y := range x.args {
				if !seen[y] {
					seen[y] = true
					out = append(out, y)
				}
			}
			continue
		}
		out = append(out, x)
	}
	switch len(out) {
	case 0:
		return ts.tru
	case 1:
		return out[0]
	}
	sort.Slice(out, func(i, j int) bool { return out[i].id < out[j].id })
	return ts.mk("and", sortBool, out, "", nil)
}

func (ts *TermStore) Or(xs ...*Term) *Term {
	neg := make([]*Term, len(xs))
	for i, x := range xs {
		neg[i] = ts.Not(x)
	}
	return ts.Not(ts.And(neg...))
}

func (ts *TermStore) Ite(c, a, b *Term) *Term {
	if c.IsTrue() {
		return a
	}
	if c.IsFalse() {
		return b
	}
	if a == b {
		return a
	}
	if a.sort.K == SBool {
		if a.IsTrue() && b.IsFalse() {
			return c
		}
		if a.IsFalse() && b.IsTrue() {
			return ts.Not(c)
		}
		return ts.Or(ts.And(c, a), ts.And(ts.Not(c), b))
	}
	return ts.mk("ite", a.sort, []*Term{c, a, b}, "", nil)
}

func (ts *TermStore) Eq(a, b *Term) *Term {
	if a == b {
		return ts.tru
	}
	if a.sort != b.sort {
		panic(fmt.Sprintf("Eq sort mismatch %v %v (%s vs %s)", a.sort, b.sort, ts.Show(a), ts.Show(b)))
	}
	if a.IsConst() && b.IsConst() {
		return ts.Bool(a.val.Cmp(b.val) == 0)
	}
	if a.sort.K == SBool {
		if a.IsConst() {
			a, b = b, a
		}
		if b.IsTrue() {
			return a
		}
		if b.IsFalse() {
			return ts.Not(a)
		}
	}
	if a.id > b.id {
		a, b = b, a
	}
	return ts.mk("=", sortBool, []*Term{a, b}, "", nil)
}

// ---- Bit-vector operations ----

func (ts *TermStore) bvConst2(op string, a, b *Term, signed bool) (*Term, bool) {
	if !(a.IsConst() && b.IsConst()) {
		return nil, false
	}
	w := a.sort.W
	x, y := a.val.Uint64(), b.val.Uint64()
	m := mask(w)
	switch op {
	case "bvadd":
		return ts.BV((x+y)&m, w), true
	case "bvsub":
		return ts.BV((x-y)&m, w), true
	case "bvmul":
		return ts.BV((x*y)&m, w), true
	case "bvand":
		return ts.BV(x&y, w), true
	case "bvor":
		return ts.BV(x|y, w), true
	case "bvxor":
		return ts.BV(x^y, w), true
	case "bvult":
		return ts.Bool(x < y), true
	case "bvule":
		return ts.Bool(x <= y), true
	case "bvslt":
		return ts.Bool(sext(x, w) < sext(y, w)), true
	case "bvsle":
		return ts.Bool(sext(x, w) <= sext(y, w)), true
	case "bvshl":
		if y >= uint64(w) {
			return ts.BV(0, w), true
		}
		return ts.BV((x<<y)&m, w), true
	case "bvlshr":
		if y >= uint64(w) {
			return ts.BV(0, w), true
		}
		return ts.BV(x>>y, w), true
	case "bvudiv":
		if y == 0 {
			return nil, false
		}
		return ts.BV(x/y, w), true
	case "bvurem":
		if y == 0 {
			return nil, false
		}
		return ts.BV(x%y, w), true
	}
	return nil, false
}

func (ts *TermStore) BVOp(op string, a, b *Term) *Term {
	if a.sort != b.sort {
		panic(fmt.Sprintf("BVOp %s sort mismatch %v %v", op, a.sort, b.sort))
	}
	if r, ok := ts.bvConst2(op, a, b, false); ok {
		return r
	}
	s := a.sort
	switch op {
	case "bvult", "bvule", "bvslt", "bvsle":
		s = sortBool
	case "bvadd", "bvor", "bvxor":
		if b.IsConst() && b.val.Sign() == 0 {
			return a
		}
		if a.IsConst() && a.val.Sign() == 0 {
			return b
		}
	case "bvsub":
		if b.IsConst() && b.val.Sign() == 0 {
			return a
		}
	}
	return ts.mk(op, s, []*Term{a, b}, "", nil)
}

func (ts *TermStore) BVNeg(a *Term) *Term {
	if a.IsConst() {
		return ts.BV((-a.val.Uint64())&mask(a.sort.W), a.sort.W)
	}
	return ts.mk("bvneg", a.sort, []*Term{a}, "", nil)
}

func (ts *TermStore) BVNot(a *Term) *Term {
	if a.IsConst() {
		return ts.BV((^a.val.Uint64())&mask(a.sort.W), a.sort.W)
	}
	return ts.mk("bvnot", a.sort, []*Term{a}, "", nil)
}

// Resize converts a bit-vector to width w; signed selects sign extension.
func (ts *TermStore) Resize(a *Term, w int, signed bool) *Term {
	aw := a.sort.W
	if aw == w {
		return a
	}
	if a.IsConst() {
		v := a.val.Uint64()
		if w > aw && signed {
			v = uint64(sext(v, aw))
		}
		return ts.BV(v&mask(w), w)
	}
	if w < aw {
		return ts.mk(fmt.Sprintf("(_ extract %d 0)", w-1), bvSort(w), []*Term{a}, "", nil)
	}
	if signed {
		return ts.mk(fmt.Sprintf("(_ sign_extend %d)", w-aw), bvSort(w), []*Term{a}, "", nil)
	}
	return ts.mk(fmt.Sprintf("(_ zero_extend %d)", w-aw), bvSort(w), []*Term{a}, "", nil)
}

// ---- Printing ----

func (ts *TermStore) constText(t *Term) string {
	switch t.sort.K {
	case SBool:
		if t.val.Sign() != 0 {
			return "true"
		}
		return "false"
	case SBV:
		return fmt.Sprintf("(_ bv%s %d)", t.val.String(), t.sort.W)
	default:
		return t.val.String()
	}
}

func smtName(n string) string { return "|" + strings.ReplaceAll(n, "|", "!") + "|" }

// Show prints a term fully inlined (for diagnostics; may be large).
func (ts *TermStore) Show(t *Term) string {
	var sb strings.Builder
	ts.show(&sb, t, 0)
	return sb.String()
}

func (ts *TermStore) show(sb *strings.Builder, t *Term, depth int) {
	if depth > 40 {
		sb.WriteString("…")
		return
	}
	switch t.op {
	case "var":
		sb.WriteString(t.name)
	case "const":
		if t.sort.K == SStr {
			i := int(t.val.Int64())
			if i < len(ts.strList) {
				fmt.Fprintf(sb, "%q", ts.strList[i])
				return
			}
		}
		if t.sort.K == SBV {
			sb.WriteString(t.val.String())
			return
		}
		sb.WriteString(ts.constText(t))
	default:
		sb.WriteByte('(')
		sb.WriteString(t.op)
		for _, a := range t.args {
			sb.WriteByte(' ')
			ts.show(sb, a, depth+1)
		}
		sb.WriteByte(')')
	}
}

func mergeSorted(a, b []int) []int {
	if len(b) == 0 {
		return a
	}
	if len(a) == 0 {
		return b
	}
	out := make([]int, 0, len(a)+len(b))
	i, j := 0, 0
	for i < len(a) && j < len(b) {
		switch {
		case a[i] < b[j]:
			out = append(out, a[i])
			i++
		case a[i] > b[j]:
			out = append(out, b[j])
			j++
		default:
			out = append(out, a[i])
			i++
			j++
		}
	}
	out = append(out, a[i:]...)
	return append(out, b[j:]...)
}
