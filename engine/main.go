package main

import (
	"runtime/debug"
	"runtime/pprof"
	"encoding/json"
	"flag"
	"fmt"
	"os"
	"path/filepath"
	"sort"
	"strings"
	"time"

	"golang.org/x/tools/go/packages"
	"golang.org/x/tools/go/ssa"
	"golang.org/x/tools/go/ssa/ssautil"
)

type stringList []string

func (s *stringList) String() string     { return strings.Join(*s, ",") }
func (s *stringList) Set(v string) error { *s = append(*s, v); return nil }

func main() {
	var (
		repo      = flag.String("repo", "/repo", "repository root")
		overlayF  = flag.String("overlay", "", "JSON file {\"Replace\":{virtual:real}} (same format as go build -overlay)")
		redirectF = flag.String("redirects", "", "JSON file {real function: model function}")
		kfF       = flag.String("known", "", "known_findings.json")
		out       = flag.String("out", "", "output JSON")
		workers   = flag.Int("workers", 8, "parallel workers")
		solver    = flag.String("solver", "z3", "z3 | z3-new | cvc5")
		unwind    = flag.Int("unwind", 8, "bound on symbolic branch decisions per block per frame")
		maxSteps  = flag.Int("maxsteps", 5_000_000, "instruction budget per path")
		maxSleeps = flag.Int("maxsleeps", 0, "bound on time.Sleep calls per path that cannot be skipped by a virtual-time jump (0 = 4 x unwind)")
		maxPaths  = flag.Int("maxpaths", 0, "path budget (0 = none)")
		timeoutMs = flag.Int("timeout-ms", 60000, "per-query solver timeout")
		permMax   = flag.Int("mapperm", 3, "maps up to this size get all iteration orders when nondeterministic order is on")
		budgetS   = flag.Int("budget-s", 0, "wall-clock budget for exploration in seconds (0 = none)")
		concrete  = flag.String("concrete", "", "JSON file of concrete inputs {name:[values...]} (translator validation)")
		qlog      = flag.String("querylog", "", "prefix for solver query logs")
		tags      = flag.String("tags", "verif", "build tags")
		calibF    = flag.String("calib", "", "JSON file {fact: bool} measured natively (model calibration)")
		stepprof  = flag.Bool("stepprof", false, "count interpreted instructions per function")
		noslice   = flag.Bool("noslice", false, "disable independent-constraint slicing of queries")
		only      = flag.String("only", "", "comma-separated label prefixes: assertions whose label starts with another 'Cnn:' prefix are not checked")
	)
	var harnesses stringList
	var pkgs stringList
	var initPk stringList
	flag.Var(&harnesses, "harness", "pkgpath.Func (repeatable)")
	flag.Var(&pkgs, "pkg", "package pattern to load (repeatable)")
	flag.Var(&initPk, "initpkg", "extra package whose initialiser is executed")
	flag.BoolVar(&forkProfOn, "forkprof", false, "print the sites of two-sided symbolic decisions")
	cpuprof := flag.String("cpuprofile", "", "write CPU profile")
	memGB := flag.Int("mem-gb", 6, "soft memory limit in GiB (the garbage collector runs only when it is approached)")
	flag.Parse()
	if *cpuprof != "" {
		f, _ := os.Create(*cpuprof)
		pprof.StartCPUProfile(f)
		defer pprof.StopCPUProfile()
	}

	overlay := map[string][]byte{}
	if *overlayF != "" {
		var ov struct{ Replace map[string]string }
		mustJSON(*overlayF, &ov)
		for virt, real := range ov.Replace {
			b, err := os.ReadFile(real)
			if err != nil {
				fatal("overlay: %v", err)
			}
			overlay[virt] = b
		}
	}
	t0 := time.Now()
	cfg := &packages.Config{
		Mode:       packages.LoadAllSyntax,
		Dir:        *repo,
		Overlay:    overlay,
		BuildFlags: []string{"-tags=" + *tags},
		Env:        append(os.Environ(), "GOFLAGS=-mod=mod", "GOPROXY=off"),
	}
	initial, err := packages.Load(cfg, pkgs...)
	if err != nil {
		fatal("load: %v", err)
	}
	nerr := 0
	packages.Visit(initial, nil, func(p *packages.Package) {
		for _, e := range p.Errors {
			if nerr < 20 {
				fmt.Fprintln(os.Stderr, "load error:", e)
			}
			nerr++
		}
	})
	if nerr > 0 {
		fatal("%d package load errors", nerr)
	}
	prog, _ := ssautil.AllPackages(initial, ssa.InstantiateGenerics)
	prog.Build()
	// the SSA program is a large, long-lived heap: collect rarely
	debug.SetGCPercent(-1)
	debug.SetMemoryLimit(int64(*memGB) << 30)
	loadS := time.Since(t0).Seconds()

	findFn := func(q string) *ssa.Function {
		i := strings.LastIndex(q, ".")
		if i < 0 {
			fatal("bad function name %q", q)
		}
		pp, fnn := q[:i], q[i+1:]
		for _, p := range prog.AllPackages() {
			if p.Pkg.Path() == pp {
				if f := p.Func(fnn); f != nil {
					return f
				}
			}
		}
		return nil
	}

	redirect := map[string]*ssa.Function{}
	if *redirectF != "" {
		var m map[string]string
		mustJSON(*redirectF, &m)
		for real, model := range m {
			f := findFn(model)
			if f == nil {
				// models are optional per package set; only complain when the real function is loaded
				continue
			}
			redirect[real] = f
		}
	}
	kfOpen := map[string]bool{}
	if *kfF != "" {
		var kf struct {
			Findings []struct {
				ID     string `json:"id"`
				Status string `json:"status"`
			} `json:"findings"`
		}
		mustJSON(*kfF, &kf)
		for _, f := range kf.Findings {
			if f.Status == "open" {
				kfOpen[f.ID] = true
			}
		}
	}
	calib := map[string]bool{}
	if *calibF != "" {
		mustJSON(*calibF, &calib)
	}
	var conc map[string][]string
	if *concrete != "" {
		mustJSON(*concrete, &conc)
	}
	initPkgs := map[string]bool{"io": true, "errors": false, "lukechampine.com/uint128": true}
	for _, p := range initPk {
		initPkgs[p] = true
	}

	type outT struct {
		LoadS   float64      `json:"load_s"`
		Results []*RunResult `json:"results"`
		Errors  []string     `json:"errors"`
	}
	o := &outT{LoadS: loadS}
	for _, h := range harnesses {
		f := findFn(h)
		if f == nil {
			o.Errors = append(o.Errors, "harness not found: "+h)
			continue
		}
		c := &Config{Unwind: *unwind, MaxSteps: *maxSteps, MaxSleeps: *maxSleeps, MapPermMax: *permMax, Solver: *solver,
			TimeoutMs: *timeoutMs, Workers: *workers, MaxPaths: *maxPaths, QueryLog: *qlog, Concrete: conc, NoSlice: *noslice, Calib: calib, StepProf: *stepprof}
		if *only != "" {
			c.Only = strings.Split(*only, ",")
		}
		if *budgetS > 0 {
			c.Deadline = time.Now().Add(time.Duration(*budgetS) * time.Second)
		}
		if conc != nil {
			c.Workers = 1
		}
		rr := Explore(prog, f, c, redirect, kfOpen, initPkgs)
		o.Results = append(o.Results, rr)
		fmt.Fprintf(os.Stderr, "%s: paths=%d outcomes=%v queries=%d (sat %d unsat %d unknown %d) solver=%.2fs wall=%.2fs cex=%d\n",
			h, rr.Paths, rr.Outcomes, rr.Queries, rr.Sat, rr.Unsat, rr.Unknown, rr.SolverS, rr.WallS, len(rr.Cex))
		for _, l := range sortedKeys(rr.Asserts) {
			a := rr.Asserts[l]
			fmt.Fprintf(os.Stderr, "   assert %-50s discharged=%d violated=%d known=%d\n", l, a.Discharged, a.Violated, a.KnownHit)
		}
		for _, p := range rr.Problems {
			fmt.Fprintf(os.Stderr, "   PROBLEM %s\n", firstLines(p, 12))
		}
	}
	if forkProfOn {
		type kv struct {
			k string
			n int64
		}
		var all []kv
		forkProf.Range(func(k, v any) bool { all = append(all, kv{k.(string), *v.(*int64)}); return true })
		sort.Slice(all, func(i, j int) bool { return all[i].n > all[j].n })
		for i, e := range all {
			if i >= 25 {
				break
			}
			fmt.Fprintf(os.Stderr, "   FORK %8d %s\n", e.n, e.k)
		}
	}
	b, _ := json.MarshalIndent(o, "", " ")
	if *out != "" {
		os.MkdirAll(filepath.Dir(*out), 0o755)
		if err := os.WriteFile(*out, b, 0o644); err != nil {
			fatal("%v", err)
		}
	} else {
		os.Stdout.Write(b)
	}
	if len(o.Errors) > 0 {
		for _, e := range o.Errors {
			fmt.Fprintln(os.Stderr, "ERROR:", e)
		}
		pprof.StopCPUProfile()
		os.Exit(2)
	}
}

func firstLines(s string, n int) string {
	ls := strings.Split(s, "\n")
	if len(ls) > n {
		ls = ls[:n]
	}
	return strings.Join(ls, "\n      ")
}

func mustJSON(path string, v any) {
	b, err := os.ReadFile(path)
	if err != nil {
		fatal("%v", err)
	}
	if err := json.Unmarshal(b, v); err != nil {
		fatal("%s: %v", path, err)
	}
}

func fatal(format string, a ...any) {
	fmt.Fprintf(os.Stderr, "gosym: "+format+"\n", a...)
	os.Exit(2)
}

var _ = sort.Strings
