package main

// Symbolic interpreter for go/ssa.  Control structure adapted from
// golang.org/x/tools/go/ssa/interp (BSD licence).

import (
	"fmt"
	"go/token"
	"go/types"
	"runtime/debug"
	"slices"
	"strings"

	"golang.org/x/tools/go/ssa"
)

type continuation int

const (
	kNext continuation = iota
	kReturn
	kJump
)

// targetPanic is a Go-level panic of the interpreted program.
type targetPanic struct {
	v     value
	where *string
}

func (p targetPanic) String() string { return toString(p.v) }

// pathAbort ends the current path without running target defers.
type pathAbort struct {
	kind string // dead | unsupported | unwinding | solver-unknown | steps | killed | engine-error | deadlock
	msg  string
}

type deferred struct {
	fn    value
	args  []value
	instr *ssa.Defer
	tail  *deferred
}

type frame struct {
	in               *Interp
	g                *goroutine
	caller           *frame
	fn               *ssa.Function
	block, prevBlock *ssa.BasicBlock
	env              []value
	info             *fnInfo
	locals           []value
	defers           *deferred
	result           value
	panicking        bool
	panic            any
	phitemps         []value
	cur              ssa.Instruction
	symIfCount       map[*ssa.BasicBlock]int
}

func (fr *frame) get(key ssa.Value) value {
	switch key := key.(type) {
	case nil:
		return nil
	case *ssa.Function, *ssa.Builtin:
		return key
	case *ssa.Const:
		return constValue(key)
	case *ssa.Global:
		return fr.in.global(key)
	}
	if i, ok := fr.info.idx[key]; ok {
		return fr.env[i]
	}
	panic(fmt.Sprintf("get: no value for %T: %v", key, key.Name()))
}

func (fr *frame) runDefer(d *deferred) {
	var ok bool
	defer func() {
		if !ok {
			r := recover()
			if pa, isAbort := r.(pathAbort); isAbort {
				panic(pa)
			}
			fr.panicking = true
			fr.panic = r
		}
	}()
	fr.in.call(fr, d.instr.Pos(), d.fn, d.args)
	ok = true
}

func (fr *frame) runDefers() {
	for d := fr.defers; d != nil; d = d.tail {
		fr.runDefer(d)
	}
	fr.defers = nil
	if fr.panicking {
		panic(fr.panic)
	}
}

func (in *Interp) lookupMethod(typ types.Type, meth *types.Func) *ssa.Function {
	return in.prog.LookupMethod(typ, meth.Pkg(), meth.Name())
}

func (in *Interp) unsupported(format string, a ...any) {
	panic(pathAbort{kind: "unsupported", msg: fmt.Sprintf(format, a...)})
}

func tpanic(format string, a ...any) {
	panic(targetPanic{v: fmt.Sprintf("runtime error: "+format, a...)})
}

func derefPtr(v value, what string) *value {
	p, ok := v.(*value)
	if !ok {
		panic(pathAbort{kind: "unsupported", msg: fmt.Sprintf("%s through non-pointer %T", what, v)})
	}
	if p == nil {
		tpanic("invalid memory address or nil pointer dereference (%s)", what)
	}
	return p
}

func mustDeref(t types.Type) types.Type {
	if p, ok := t.Underlying().(*types.Pointer); ok {
		return p.Elem()
	}
	panic(fmt.Sprintf("mustDeref: %v", t))
}

func (in *Interp) visitInstr(fr *frame, instr ssa.Instruction) continuation {
	in.steps++
	if in.w.cfg.StepProf {
		in.w.fnSteps[fr.fn]++
	}
	if in.steps > in.w.cfg.MaxSteps {
		panic(pathAbort{kind: "steps", msg: fmt.Sprintf("step limit %d exceeded in %s", in.w.cfg.MaxSteps, fr.fn)})
	}
	switch instr := instr.(type) {
	case *ssa.DebugRef:
		// no-op

	case *ssa.UnOp:
		fr.env[fr.info.idx[instr]] = in.unop(fr, instr, fr.get(instr.X))

	case *ssa.BinOp:
		fr.env[fr.info.idx[instr]] = in.binop(instr.Op, instr.X.Type(), fr.get(instr.X), fr.get(instr.Y))

	case *ssa.Call:
		fn, args := in.prepareCall(fr, &instr.Call)
		fr.env[fr.info.idx[instr]] = in.call(fr, instr.Pos(), fn, args)

	case *ssa.ChangeInterface:
		fr.env[fr.info.idx[instr]] = fr.get(instr.X)

	case *ssa.ChangeType:
		fr.env[fr.info.idx[instr]] = fr.get(instr.X)

	case *ssa.Convert:
		fr.env[fr.info.idx[instr]] = in.conv(instr.Type(), instr.X.Type(), fr.get(instr.X))

	case *ssa.SliceToArrayPointer:
		// as x/tools/go/ssa/interp: the array shares the slice's backing store
		x, _ := fr.get(instr.X).([]value)
		n := int(instr.Type().Underlying().(*types.Pointer).Elem().Underlying().(*types.Array).Len())
		if len(x) < n {
			tpanic("cannot convert slice with length %d to array or pointer to array with length %d", len(x), n)
		}
		if n == 0 && x == nil {
			fr.env[fr.info.idx[instr]] = (*value)(nil)
		} else {
			var cell value = array(x[:n:n])
			fr.env[fr.info.idx[instr]] = &cell
		}

	case *ssa.MakeInterface:
		fr.env[fr.info.idx[instr]] = iface{t: instr.X.Type(), v: fr.get(instr.X)}

	case *ssa.Extract:
		fr.env[fr.info.idx[instr]] = fr.get(instr.Tuple).(tuple)[instr.Index]

	case *ssa.Slice:
		fr.env[fr.info.idx[instr]] = in.slice(fr.get(instr.X), fr.get(instr.Low), fr.get(instr.High), fr.get(instr.Max))

	case *ssa.Return:
		switch len(instr.Results) {
		case 0:
		case 1:
			fr.result = fr.get(instr.Results[0])
		default:
			var res []value
			for _, r := range instr.Results {
				res = append(res, fr.get(r))
			}
			fr.result = tuple(res)
		}
		fr.block = nil
		return kReturn

	case *ssa.RunDefers:
		fr.runDefers()

	case *ssa.Panic:
		tp := targetPanic{v: fr.get(instr.X)}
		if fr.g != nil && fr.g.lastRecovered != "" {
			// a recovered panic that is raised again keeps its original location
			w := fr.fn.String() + " at " + fr.in.prog.Fset.Position(instr.Pos()).String() + " [this goroutine recovered an earlier panic: " + fr.g.lastRecovered + "]"
			tp.where = &w
		}
		panic(tp)

	case *ssa.Send:
		in.chanSend(fr.g, fr.get(instr.Chan), fr.get(instr.X))

	case *ssa.Store:
		addr := derefPtr(fr.get(instr.Addr), "store")
		in.noteAccess(fr, addr, true)
		store(mustDeref(instr.Addr.Type()), addr, fr.get(instr.Val))

	case *ssa.If:
		succ := 1
		c := fr.get(instr.Cond)
		switch c := c.(type) {
		case bool:
			if c {
				succ = 0
			}
		case *Sym:
			if fr.symIfCount == nil {
				fr.symIfCount = map[*ssa.BasicBlock]int{}
			}
			fr.symIfCount[fr.block]++
			if fr.symIfCount[fr.block] > in.w.cfg.Unwind {
				panic(pathAbort{kind: "unwinding", msg: fmt.Sprintf("unwinding bound %d exceeded in %s block %d", in.w.cfg.Unwind, fr.fn, fr.block.Index)})
			}
			if in.decide(c.T) {
				succ = 0
			}
		default:
			panic(fmt.Sprintf("If on %T", c))
		}
		fr.prevBlock, fr.block = fr.block, fr.block.Succs[succ]
		return kJump

	case *ssa.Jump:
		fr.prevBlock, fr.block = fr.block, fr.block.Succs[0]
		return kJump

	case *ssa.Defer:
		fn, args := in.prepareCall(fr, &instr.Call)
		defers := &fr.defers
		if instr.DeferStack != nil {
			if into := fr.get(instr.DeferStack); into != nil {
				defers = into.(**deferred)
			}
		}
		*defers = &deferred{fn: fn, args: args, instr: instr, tail: *defers}

	case *ssa.Go:
		fn, args := in.prepareCall(fr, &instr.Call)
		in.spawn(fr, instr.Pos(), fn, args)

	case *ssa.MakeChan:
		fr.env[fr.info.idx[instr]] = in.newChan(int(in.asInt64(fr.get(instr.Size))), instr.Type().Underlying().(*types.Chan).Elem())

	case *ssa.Alloc:
		var addr *value
		if instr.Heap {
			addr = new(value)
			fr.env[fr.info.idx[instr]] = addr
			in.trackAlloc(addr, mustDeref(instr.Type()))
		} else {
			addr = fr.env[fr.info.idx[instr]].(*value)
		}
		*addr = zero(mustDeref(instr.Type()))

	case *ssa.MakeSlice:
		n := in.asInt64(fr.get(instr.Cap))
		slice := make([]value, n)
		tElt := instr.Type().Underlying().(*types.Slice).Elem()
		for i := range slice {
			slice[i] = zero(tElt)
		}
		fr.env[fr.info.idx[instr]] = slice[:in.asInt64(fr.get(instr.Len))]

	case *ssa.MakeMap:
		m := newSmap(instr.Type().Underlying().(*types.Map))
		if in.trackHeap {
			in.allocSeq++
			m.id = in.allocSeq
		}
		fr.env[fr.info.idx[instr]] = m

	case *ssa.Range:
		// map iteration order is a symbolic choice only in the code under test: the harness' own loops over its
		// reference maps (zz_vf_*.go) are order-insensitive sums / assertion loops and use insertion order
		saved := in.mapOrderNondet
		if saved && fr.info.harnessCode {
			in.mapOrderNondet = false
		}
		fr.env[fr.info.idx[instr]] = in.rangeIter(fr.get(instr.X))
		in.mapOrderNondet = saved

	case *ssa.Next:
		fr.env[fr.info.idx[instr]] = fr.get(instr.Iter).(iter).next()

	case *ssa.FieldAddr:
		var p *value
		if pp, ok := fr.get(instr.X).(*value); ok && pp != nil {
			p = pp
		} else {
			p = derefPtr(fr.get(instr.X), "field address in "+fr.fn.String())
		}
		s, ok := (*p).(structure)
		if !ok {
			in.unsupported("FieldAddr on %T in %s", *p, fr.fn)
		}
		fr.env[fr.info.idx[instr]] = &s[instr.Field]
		if in.trackHeap {
			in.trackField(p, &s[instr.Field], mustDeref(instr.X.Type()).Underlying().(*types.Struct).Field(instr.Field).Name())
		}

	case *ssa.Field:
		s, ok := fr.get(instr.X).(structure)
		if !ok {
			in.unsupported("Field on %T in %s", fr.get(instr.X), fr.fn)
		}
		fr.env[fr.info.idx[instr]] = s[instr.Field]

	case *ssa.IndexAddr:
		x := fr.get(instr.X)
		switch x := x.(type) {
		case []value:
			i := in.index(fr.get(instr.Index), len(x))
			fr.env[fr.info.idx[instr]] = &x[i]
		case *value: // *array
			if x == nil {
				tpanic("nil pointer dereference (array index)")
			}
			a := (*x).(array)
			i := in.index(fr.get(instr.Index), len(a))
			fr.env[fr.info.idx[instr]] = &a[i]
		default:
			panic(fmt.Sprintf("unexpected x type in IndexAddr: %T", x))
		}

	case *ssa.Index:
		x := fr.get(instr.X)
		switch x := x.(type) {
		case array:
			fr.env[fr.info.idx[instr]] = x[in.index(fr.get(instr.Index), len(x))]
		case string:
			fr.env[fr.info.idx[instr]] = x[in.index(fr.get(instr.Index), len(x))]
		case *Sym:
			in.unsupported("index of symbolic string in %s", fr.fn)
		default:
			panic(fmt.Sprintf("unexpected x type in Index: %T", x))
		}

	case *ssa.Lookup:
		fr.env[fr.info.idx[instr]] = in.lookup(fr, instr, fr.get(instr.X), fr.get(instr.Index))

	case *ssa.MapUpdate:
		m, ok := fr.get(instr.Map).(*smap)
		if !ok {
			panic(fmt.Sprintf("illegal map type: %T", fr.get(instr.Map)))
		}
		if m == nil {
			panic(targetPanic{v: "assignment to entry in nil map"})
		}
		in.noteMapAccess(fr, m, true)
		in.mapUpdate(m, fr.get(instr.Key), fr.get(instr.Value))

	case *ssa.TypeAssert:
		fr.env[fr.info.idx[instr]] = in.typeAssert(instr, fr.get(instr.X).(iface))

	case *ssa.MakeClosure:
		var bindings []value
		for _, binding := range instr.Bindings {
			bindings = append(bindings, fr.get(binding))
		}
		fr.env[fr.info.idx[instr]] = &closure{instr.Fn.(*ssa.Function), bindings}

	case *ssa.Phi:
		panic("unreachable: phi")

	case *ssa.Select:
		fr.env[fr.info.idx[instr]] = in.selectStmt(fr.g, instr, fr)

	default:
		panic(fmt.Sprintf("unexpected instruction: %T", instr))
	}
	return kNext
}

// index turns an index value into a concrete int, enumerating feasible
// values of a symbolic index over [0,n).
func (in *Interp) index(idx value, n int) int {
	if s, ok := idx.(*Sym); ok {
		for i := 0; i < n; i++ {
			if in.decide(in.ts.Eq(s.T, in.ts.BV(uint64(i), s.T.sort.W))) {
				return i
			}
		}
		tpanic("index out of range [symbolic] with length %d", n)
	}
	i := in.asInt64(idx)
	if i < 0 || int(i) >= n {
		tpanic("index out of range [%d] with length %d", i, n)
	}
	return int(i)
}

type opaqueMethod struct {
	name string
	recv *opaque
}

func (in *Interp) prepareCall(fr *frame, call *ssa.CallCommon) (fn value, args []value) {
	v := fr.get(call.Value)
	if call.Method == nil {
		fn = v
	} else {
		recv := v.(iface)
		if recv.t == nil {
			tpanic("invalid memory address or nil pointer dereference (method %s on nil interface)", call.Method.Name())
		}
		if o, ok := recv.v.(*opaque); ok {
			fn = &opaqueMethod{name: call.Method.Name(), recv: o}
		} else if f := in.lookupMethod(recv.t, call.Method); f == nil {
			panic(fmt.Sprintf("method set for dynamic type %v does not contain %s", recv.t, call.Method))
		} else {
			fn = f
		}
		args = append(args, recv.v)
	}
	for _, arg := range call.Args {
		args = append(args, fr.get(arg))
	}
	return
}

func (in *Interp) call(caller *frame, callpos token.Pos, fn value, args []value) value {
	switch fn := fn.(type) {
	case *ssa.Function:
		if fn == nil {
			tpanic("call of nil function")
		}
		return in.callSSA(caller, callpos, fn, args, nil)
	case *closure:
		return in.callSSA(caller, callpos, fn.Fn, args, fn.Env)
	case *ssa.Builtin:
		return in.callBuiltin(caller, fn, args)
	case *opaqueMethod:
		return in.callOpaqueMethod(caller, fn, args)
	case *nativeFn:
		return fn.f(caller, args)
	}
	panic(fmt.Sprintf("cannot call %T", fn))
}

// nativeFn is an engine-implemented function value (e.g. a bound method of an opaque).
type nativeFn struct {
	name string
	f    func(fr *frame, args []value) value
}

func (in *Interp) callSSA(caller *frame, callpos token.Pos, fn *ssa.Function, args []value, env []value) value {
	var g *goroutine
	if caller != nil {
		g = caller.g
	}
	fr := &frame{in: in, g: g, caller: caller, fn: fn}
	if fn.Parent() == nil {
		ci := in.w.callInfoOf(fn)
		if ci.ext != nil {
			in.w.stubsHit[ci.name]++
			return ci.ext(fr, args)
		}
		if ci.red != nil {
			in.w.stubsHit[ci.redName]++
			fn = ci.red
			fr.fn = ci.red
		}
		if fn.Blocks == nil {
			in.unsupported("no code for function %s", ci.name)
		}
		if ci.reflect {
			// reflection-driven code cannot be executed symbolically: the code under test reached
			// a library call that has neither an intercept nor a model
			in.unsupported("reflection (%s) reached from %s: outside the models/intercepts of this engine", ci.name, callerChain(caller))
		}
	}
	if fn.TypeParams().Len() > 0 && len(fn.TypeArgs()) == 0 {
		in.unsupported("uninstantiated generic %s", fn)
	}
	in.depth++
	if in.depth > 400 {
		panic(pathAbort{kind: "unwinding", msg: "call depth 400 exceeded at " + fn.String()})
	}
	defer func() { in.depth-- }()
	in.w.fnsHit[fn]++

	fr.info = in.w.fnInfoOf(fn)
	fr.env = make([]value, fr.info.n)
	fr.block = fn.Blocks[0]
	fr.locals = make([]value, len(fn.Locals))
	for i, l := range fn.Locals {
		fr.locals[i] = zero(mustDeref(l.Type()))
		fr.env[fr.info.idx[l]] = &fr.locals[i]
	}
	for i, p := range fn.Params {
		fr.env[fr.info.idx[p]] = args[i]
	}
	for i, fv := range fn.FreeVars {
		fr.env[fr.info.idx[fv]] = env[i]
	}
	for fr.block != nil {
		in.runFrame(fr)
	}
	return fr.result
}

func (in *Interp) runFrame(fr *frame) {
	defer func() {
		if fr.block == nil {
			return // normal return
		}
		r := recover()
		switch r := r.(type) {
		case pathAbort:
			panic(r)
		case targetPanic:
			if r.where == nil {
				w := fr.fn.String()
				if fr.cur != nil {
					w += " at " + fr.in.prog.Fset.Position(fr.cur.Pos()).String()
				}
				w += " [calls:"
				for c, n := fr.caller, 0; c != nil && c.fn != nil && n < 12; c, n = c.caller, n+1 {
					w += " < " + c.fn.Name()
				}
				w += "]"
				r.where = &w
			}
			fr.panicking = true
			fr.panic = r
		default:
			// host-level failure inside the engine: not a target panic
			panic(pathAbort{kind: "engine-error", msg: fmt.Sprintf("%v in %s\n%s", r, fr.fn, trimStack(debug.Stack()))})
		}
		fr.runDefers()
		fr.block = fr.fn.Recover
	}()

	for {
		nonPhis := executePhis(fr)
		for _, instr := range nonPhis {
			fr.cur = instr
			in.curFr = fr
			if in.visitInstr(fr, instr) == kReturn {
				return
			}
		}
	}
}

func trimStack(b []byte) string {
	lines := strings.Split(string(b), "\n")
	if len(lines) > 40 {
		lines = lines[:40]
	}
	return strings.Join(lines, "\n")
}

func executePhis(fr *frame) []ssa.Instruction {
	firstNonPhi := -1
	for i, instr := range fr.block.Instrs {
		if _, ok := instr.(*ssa.Phi); !ok {
			firstNonPhi = i
			break
		}
	}
	nonPhis := fr.block.Instrs[firstNonPhi:]
	if firstNonPhi > 0 {
		phis := fr.block.Instrs[:firstNonPhi]
		predIndex := slices.Index(fr.block.Preds, fr.prevBlock)
		fr.phitemps = fr.phitemps[:0]
		for _, phi := range phis {
			phi := phi.(*ssa.Phi)
			fr.phitemps = append(fr.phitemps, fr.get(phi.Edges[predIndex]))
		}
		for i, phi := range phis {
			fr.env[fr.info.idx[phi.(*ssa.Phi)]] = fr.phitemps[i]
		}
	}
	return nonPhis
}

func (in *Interp) doRecover(caller *frame) value {
	if caller != nil && !caller.panicking && caller.caller != nil && caller.caller.panicking {
		caller.caller.panicking = false
		p := caller.caller.panic
		caller.caller.panic = nil
		switch p := p.(type) {
		case targetPanic:
			if p.where != nil && caller.g != nil {
				caller.g.lastRecovered = toString(p.v) + " in " + *p.where
			}
			if _, ok := p.v.(iface); ok {
				return p.v
			}
			return iface{t: types.Typ[types.String], v: toStringish(p.v)}
		default:
			panic(fmt.Sprintf("unexpected panic type %T in target call to recover()", p))
		}
	}
	return iface{}
}

func toStringish(v value) value {
	if s, ok := v.(string); ok {
		return s
	}
	return toString(v)
}

// fnInfo numbers the SSA values of a function so that frames can use a slice
// instead of a map for their environment.
type fnInfo struct {
	idx map[ssa.Value]int32
	n   int
	// harnessCode: the function is defined in a harness file (zz_vf_*.go of the overlay)
	harnessCode bool
}

func (w *Worker) fnInfoOf(fn *ssa.Function) *fnInfo {
	if fi, ok := w.fnInfo[fn]; ok {
		return fi
	}
	fi := &fnInfo{idx: map[ssa.Value]int32{}}
	if fn.Prog != nil && fn.Pos().IsValid() {
		fi.harnessCode = strings.HasPrefix(filepathBase(fn.Prog.Fset.Position(fn.Pos()).Filename), "zz_vf")
	} else if p := fn.Parent(); p != nil && p.Pos().IsValid() {
		fi.harnessCode = strings.HasPrefix(filepathBase(p.Prog.Fset.Position(p.Pos()).Filename), "zz_vf")
	}
	add := func(v ssa.Value) {
		if _, ok := fi.idx[v]; !ok {
			fi.idx[v] = int32(fi.n)
			fi.n++
		}
	}
	for _, p := range fn.Params {
		add(p)
	}
	for _, fv := range fn.FreeVars {
		add(fv)
	}
	for _, l := range fn.Locals {
		add(l)
	}
	for _, b := range fn.Blocks {
		for _, instr := range b.Instrs {
			if v, ok := instr.(ssa.Value); ok {
				add(v)
			}
		}
	}
	w.fnInfo[fn] = fi
	return fi
}

func callerChain(fr *frame) string {
	s := ""
	for c, n := fr, 0; c != nil && c.fn != nil && n < 6; c, n = c.caller, n+1 {
		if n > 0 {
			s += " < "
		}
		s += c.fn.String()
	}
	return s
}

// callInfo caches what the engine knows about a callee (name lookups are expensive).
type callInfo struct {
	name    string
	ext     extFn
	red     *ssa.Function
	redName string
	reflect bool
}

func (w *Worker) callInfoOf(fn *ssa.Function) *callInfo {
	if ci, ok := w.callInfo[fn]; ok {
		return ci
	}
	name := fn.String()
	if fn.Origin() != nil {
		name = fn.Origin().String()
	}
	ci := &callInfo{name: name, ext: w.external(fn, name)}
	if ci.ext == nil {
		if red := w.redirect[name]; red != nil {
			ci.red, ci.redName = red, name+" => "+red.String()
		}
		pp := pkgPathOf(fn)
		ci.reflect = pp == "reflect" || pp == "internal/reflectlite" || pp == "internal/abi" || pp == "unsafe"
	}
	w.callInfo[fn] = ci
	return ci
}
