#!/bin/bash
# usage: benignrun.sh <name> <check>...  - apply benign/<name>/patch.diff (a behaviour-preserving change), run the checks, revert; every check must stay green
name=$1; shift
git -C /repo status --short | grep -q . && { echo "REPO DIRTY"; exit 9; }
git -C /repo apply /verif/benign/$name/patch.diff || { echo "$name PATCH-DOES-NOT-APPLY"; exit 9; }
cd /verif
for c in "$@"; do
  s=$(date +%s)
  out=$(./check $c quick 2>&1); rc=$?
  echo "$name $c rc=$rc $(( $(date +%s)-s ))s :: $(echo "$out" | grep -E "^VIOLATION|^  harness|^KNOWN|^INCONCLUSIVE|ENGINE" | head -3 | cut -c1-300 | tr '\n' '|')"
done
git -C /repo checkout -- . && git -C /repo clean -fdq
