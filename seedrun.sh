#!/bin/bash
# usage: seedrun.sh <tier> <seed-dir-name> [<check>...]  - apply seeded/<name>/patch.diff to /repo, run checks (default: the seed's property), revert
tier=$1; name=$2; shift 2
d=/verif/seeded/$name
prop=$(echo $name | sed 's/^S[0-9]*-\(C[0-9]*\).*/\1/')
checks=${@:-$prop}
git -C /repo status --short | grep -q . && { echo "REPO DIRTY"; exit 9; }
git -C /repo apply $d/patch.diff || { echo "$name PATCH-DOES-NOT-APPLY"; exit 9; }
cd /verif
for c in $checks; do
  s=$(date +%s)
  cp -f evidence/$c.json out/.evidence-$c.keep 2>/dev/null   # a seed run must not leave its evidence behind
  out=$(./check $c $tier 2>&1); rc=$?
  [ -f out/.evidence-$c.keep ] && mv -f out/.evidence-$c.keep evidence/$c.json
  echo "$name $c $tier rc=$rc $(( $(date +%s)-s ))s :: $(echo "$out" | grep -E "^VIOLATION|^  harness|^KNOWN|^INCONCLUSIVE" | head -4 | cut -c1-230 | tr '\n' '|')"
done
git -C /repo checkout -- . && git -C /repo clean -fdq
