//go:build verif

package compliance

import (
	"context"
	"io"
	"sync"
	"testing"

	"github.com/openconfig/gribigo/fluent"
	"github.com/openconfig/gribigo/rib"
	"github.com/openconfig/gribigo/server"
	"google.golang.org/grpc"
	"google.golang.org/protobuf/proto"

	spb "github.com/openconfig/gribi/v1/proto/service"
)

func init() {
	vfRegister("VfC19_each", VfC19_each)
	vfRegister("VfC19_pairs", VfC19_pairs)
	vfRegister("VfC19_faulty", VfC19_faulty)
	vfRegister("VfC19_suite", VfC19_suite)
	vfRegister("VfC19_suiteRot", VfC19_suiteRot)
}

// ---------------------------------------------------------------------------
// An in-memory "connection": the real client's streams are joined to the real
// server's handlers by channels; no transport, no serialisation.
// ---------------------------------------------------------------------------

// vfFault selects the protocol requirement a wrapped server breaks (0: none).
type vfFault int

type vfConn struct {
	spb.GRIBIClient
	srv   *server.Server
	fault vfFault
	mods  []*vfModPipe
	// what the fault filters remember
	curElection *spb.Uint128
	installed   map[vfInstalledKey]bool
}

type vfModPipe struct {
	mu       sync.Mutex
	c2s      chan *spb.ModifyRequest
	s2c      chan *spb.ModifyResponse
	c2sClose bool
	done     chan struct{} // closed when the server handler returned
	err      error         // its result
	ctx      context.Context
	sawParams bool
	ops       map[uint64]*spb.AFTOperation
	lastAnnounced *spb.Uint128
}

type vfModC struct {
	grpc.ClientStream
	p *vfModPipe
	c *vfConn
}

type vfModS struct {
	grpc.ServerStream
	p *vfModPipe
	c *vfConn
}

func (c *vfConn) Modify(ctx context.Context, _ ...grpc.CallOption) (spb.GRIBI_ModifyClient, error) {
	p := &vfModPipe{c2s: make(chan *spb.ModifyRequest, 64), s2c: make(chan *spb.ModifyResponse, 256), done: make(chan struct{}), ctx: ctx, ops: map[uint64]*spb.AFTOperation{}}
	if c.installed == nil {
		c.installed = map[vfInstalledKey]bool{}
	}
	c.mods = append(c.mods, p)
	go func() {
		p.err = c.srv.Modify(&vfModS{p: p, c: c})
		close(p.done)
	}()
	return &vfModC{p: p, c: c}, nil
}

func (s *vfModC) Send(m *spb.ModifyRequest) error {
	select {
	case <-s.p.done:
		return io.EOF // as gRPC: the status is delivered by Recv
	default:
	}
	s.p.mu.Lock()
	closed := s.p.c2sClose
	s.p.mu.Unlock()
	if closed {
		return io.EOF
	}
	fwd, resp := s.c.faultC2S(s.p, m)
	if resp != nil {
		s.p.s2c <- resp
	}
	if fwd != nil {
		s.p.c2s <- fwd
	}
	return nil
}

func (s *vfModC) Recv() (*spb.ModifyResponse, error) {
	select {
	case r := <-s.p.s2c:
		return r, nil
	default:
	}
	select {
	case r := <-s.p.s2c:
		return r, nil
	case <-s.p.done:
		// deliver what the server wrote before it returned
		select {
		case r := <-s.p.s2c:
			return r, nil
		default:
		}
		if s.p.err != nil {
			return nil, s.p.err
		}
		return nil, io.EOF
	}
}

func (s *vfModC) CloseSend() error {
	s.p.mu.Lock()
	defer s.p.mu.Unlock()
	if !s.p.c2sClose {
		s.p.c2sClose = true
		close(s.p.c2s)
	}
	return nil
}

func (s *vfModC) Context() context.Context { return s.p.ctx }

func (s *vfModS) Recv() (*spb.ModifyRequest, error) {
	m, ok := <-s.p.c2s
	if !ok {
		return nil, io.EOF
	}
	return m, nil
}

func (s *vfModS) Send(r *spb.ModifyResponse) error {
	if r = s.c.faultS2C(s.p, r); r != nil {
		s.p.s2c <- r
	}
	return nil
}

func (s *vfModS) Context() context.Context { return s.p.ctx }

// Get runs the server's handler to completion and hands the responses over.
type vfGetS struct {
	grpc.ServerStream
	out []*spb.GetResponse
	ctx context.Context
}

func (g *vfGetS) Send(r *spb.GetResponse) error { g.out = append(g.out, r); return nil }
func (g *vfGetS) Context() context.Context      { return g.ctx }

type vfGetC struct {
	grpc.ClientStream
	out []*spb.GetResponse
	pos int
	err error
}

func (g *vfGetC) Recv() (*spb.GetResponse, error) {
	if g.pos < len(g.out) {
		r := g.out[g.pos]
		g.pos++
		return r, nil
	}
	if g.err != nil {
		return nil, g.err
	}
	return nil, io.EOF
}

func (c *vfConn) Get(ctx context.Context, req *spb.GetRequest, _ ...grpc.CallOption) (spb.GRIBI_GetClient, error) {
	gs := &vfGetS{ctx: ctx}
	err := c.srv.Get(req, gs)
	if c.fault == vfFaultIncompleteGet && len(gs.out) > 0 {
		last := gs.out[len(gs.out)-1]
		if len(last.Entry) <= 1 {
			gs.out = gs.out[:len(gs.out)-1]
		} else {
			gs.out[len(gs.out)-1] = &spb.GetResponse{Entry: last.Entry[:len(last.Entry)-1]}
		}
	}
	return &vfGetC{out: gs.out, err: err}, nil
}

func (c *vfConn) Flush(ctx context.Context, req *spb.FlushRequest, _ ...grpc.CallOption) (*spb.FlushResponse, error) {
	if c.fault == vfFaultIgnoresFlush {
		return &spb.FlushResponse{Result: spb.FlushResponse_OK}, nil
	}
	if _, named := req.GetNetworkInstance().(*spb.FlushRequest_Name); named && c.fault == vfFaultFlushHitsEveryInstance {
		n := proto.Clone(req).(*spb.FlushRequest)
		n.NetworkInstance = &spb.FlushRequest_All{All: &spb.Empty{}}
		req = n
	}
	return c.srv.Flush(ctx, req)
}

// ---------------------------------------------------------------------------
// verdict capture
// ---------------------------------------------------------------------------

type vfTB struct {
	testing.TB
	failed   bool
	skipped  bool
	cleanups []func()
}

type vfFatal struct{}

func (t *vfTB) Helper()                      {}
func (t *vfTB) Fatal(args ...any)            { t.failed = true; vfObserve("fatal", "-"); panic(vfFatal{}) }
func (t *vfTB) Fatalf(f string, args ...any) { t.failed = true; vfObserve("fatalf", f); panic(vfFatal{}) }
func (t *vfTB) Error(args ...any)            { t.failed = true; vfObserve("error", "-") }
func (t *vfTB) Errorf(f string, args ...any) { t.failed = true; vfObserve("errorf", f) }
func (t *vfTB) Logf(f string, args ...any)   {}
func (t *vfTB) Log(args ...any)              {}
func (t *vfTB) Name() string                 { return "vf" }
func (t *vfTB) Skip(args ...any)             { t.skipped = true; panic(vfFatal{}) }
func (t *vfTB) Skipf(f string, args ...any)  { t.skipped = true; panic(vfFatal{}) }
func (t *vfTB) SkipNow()                     { t.skipped = true; panic(vfFatal{}) }
func (t *vfTB) FailNow()                     { t.failed = true; vfObserve("failnow", "-"); panic(vfFatal{}) }
func (t *vfTB) Fail()                        { t.failed = true; vfObserve("fail", "-") }
func (t *vfTB) Failed() bool                 { return t.failed }
func (t *vfTB) Cleanup(f func())             { t.cleanups = append(t.cleanups, f) }

// vfVerdict runs one compliance test against the connection and reports
// whether it failed.
func vfVerdict(conn *vfConn, ts *TestSpec) (failed bool) {
	failed, _ = vfVerdictS(conn, ts)
	return failed
}

// vfVerdictS also reports whether the test skipped itself.
func vfVerdictS(conn *vfConn, ts *TestSpec) (failed, skipped bool) {
	tb := &vfTB{}
	c := fluent.NewClient()
	c.Connection().WithStub(conn)
	sc := fluent.NewClient()
	sc.Connection().WithStub(conn)
	func() {
		defer func() {
			if r := recover(); r != nil {
				if _, ok := r.(vfFatal); !ok {
					panic(r)
				}
			}
		}()
		ts.In.Fn(c, tb, SecondClient(sc))
	}()
	func() {
		defer func() { recover() }()
		c.Stop(tb)
	}()
	func() {
		defer func() { recover() }()
		sc.Stop(tb)
	}()
	return tb.failed, tb.skipped
}

// vfNewServer: the reference server with a RIB whose default instance and VRF carry the configured names
// (server.New always names the default instance "DEFAULT"; the fake's InjectRIB installs a RIB built with
// the same constructor and options under the configured name).
func vfNewServer(fwdRefsOff bool) *server.Server {
	f, err := server.NewFake()
	if err != nil {
		panic(err)
	}
	var ro []rib.RIBOpt
	if fwdRefsOff {
		ro = append(ro, rib.DisableForwardReferences())
	}
	r := rib.New(defaultNetworkInstanceName, ro...)
	if err := r.AddNetworkInstance(vrfName); err != nil {
		panic(err)
	}
	f.InjectRIB(r)
	return f.Server
}

// vfConfigure: the suite's configuration is symbolic - any starting election id in [1, 2^62) (0 is invalid by
// the specification; the upper bound leaves room for the increments the suite performs) and any VRF name.
func vfConfigure() {
	base := vfU64("election-base")
	vfAssume(base >= 1)
	vfAssume(base < 1<<62)
	SetElectionID(base)
	def := vfStrK("default-name", "ni")
	vrf := vfStrK("vrf-name", "ni")
	for _, n := range []string{def, vrf} {
		vfAssume(n != "")
		vfAssume(n != nonexistentVRFName)
		vfAssume(n != "TEST-VRF")
	}
	vfAssume(def != vrf)
	SetDefaultNetworkInstanceName(def)
	SetNonDefaultVRFName(vrf)
}

func vfWantsFailure(ts *TestSpec) bool { return ts.FatalMsg != "" || ts.ErrorMsg != "" }

// VfC19_each: every test of the suite, alone, on a fresh conformant server, for every configuration.
func VfC19_each() {
	vfConfigure()
	ts := TestSuite[vfInt("test", 0, len(TestSuite)-1)]
	conn := &vfConn{srv: vfNewServer(ts.In.RequiresDisallowedForwardReferences)}
	failed := vfVerdict(conn, ts)
	vfAssert(failed == vfWantsFailure(ts), "C19:conformant-server-verdict")
	vfReach("end")
}

// VfC19_pairs: every ordered pair of tests (that need the same server mode) run back to back on ONE
// long-lived server, for every configuration: the verdict of the second does not depend on the first.
func VfC19_pairs() {
	vfConfigure()
	a := TestSuite[vfInt("first", 0, len(TestSuite)-1)]
	b := TestSuite[vfInt("second", 0, len(TestSuite)-1)]
	if a.In.RequiresDisallowedForwardReferences != b.In.RequiresDisallowedForwardReferences {
		vfReach("different-server-mode")
		return
	}
	conn := &vfConn{srv: vfNewServer(a.In.RequiresDisallowedForwardReferences)}
	failedA := vfVerdict(conn, a)
	vfAssert(failedA == vfWantsFailure(a), "C19:conformant-server-verdict")
	failedB := vfVerdict(conn, b)
	vfAssert(failedB == vfWantsFailure(b), "C19:verdict-independent-of-the-test-run-before")
	vfReach("end")
}

// ---------------------------------------------------------------------------
// Catalogue of single-requirement faulty servers: the reference server behind a connection that rewrites
// messages.  Each breaks exactly one protocol requirement; the wrappers are pure message filters, they
// never touch the server's state.
// ---------------------------------------------------------------------------

const (
	vfFaultNone                 vfFault = iota
	vfFaultNoFIBAck                     // never sends FIB_PROGRAMMED: FIB acknowledgements are omitted
	vfFaultDeleteOfAbsentFails          // answers FAILED to a DELETE of an entry this connection did not install: deletes are not idempotent
	vfFaultIncompleteGet                // leaves the last entry out of every Get stream
	vfFaultIgnoresFlush                 // answers Flush with OK without flushing
	vfFaultMisreportsElectionID         // reports the current election id with the high word off by one
	vfFaultAcceptsRepeatedParams        // swallows a repeated SessionParameters message and acknowledges it
	vfFaultIgnoresOperationElectionID   // programs operations stamped with a stale or unannounced election id
	vfFaultFlushHitsEveryInstance       // a Flush of one named instance flushes all of them
	vfFaultEchoesOwnElectionID          // reports to every session the id that session announced last, not the highest one learnt
	vfNFaults
)

var vfFaultNames = []string{"none", "no-fib-ack", "delete-of-absent-fails", "incomplete-get", "ignores-flush", "misreports-election-id", "accepts-repeated-params", "ignores-operation-election-id", "flush-hits-every-instance", "echoes-own-election-id"}

// vfWrittenFor: is the test written for the requirement the fault breaks?  Derived from the suite's own
// requirement flags and documentation, not from observed verdicts.
func vfWrittenFor(f vfFault, ts *TestSpec) bool {
	n := ts.In.ShortName
	switch f {
	case vfFaultNoFIBAck:
		return ts.In.RequiresFIBACK
	case vfFaultDeleteOfAbsentFails:
		return ts.In.RequiresIdempotentDelete
	case vfFaultIncompleteGet:
		return len(n) > 17 && n[:17] == "Get for installed"
	case vfFaultIgnoresFlush:
		switch n {
		case "Flush of all entries in default NI by elected master", "Flush from client overriding election is honoured",
			"Flush to specific network instance is honoured", "Flush all network instances":
			return true
		}
	case vfFaultEchoesOwnElectionID:
		return n == "Election - Lower election ID from new client"
	case vfFaultFlushHitsEveryInstance:
		switch n {
		case "Flush to specific network instance is honoured", "Flush non-default network instances preserves the default":
			return true
		}
	case vfFaultMisreportsElectionID:
		switch n {
		case "Modify RPC Connection with Election ID", "Election - Matching parameters for two clients in election",
			"Election - Lower election ID from new client", "Election - Incrementing election ID is honoured, and older IDs are rejected",
			"Election - Decrementing election ID is ignored", "Election - Sending same election ID from two clients":
			return true
		}
	case vfFaultAcceptsRepeatedParams:
		return n == "Modify RPC Connection with repeated SessionParameters"
	case vfFaultIgnoresOperationElectionID:
		switch n {
		case "Election - Unannounced master operations are rejected", "Election - Incrementing election ID is honoured, and older IDs are rejected":
			return true
		}
	}
	return false
}

type vfInstalledKey struct {
	ni   string
	kind int
	num  uint64
	str  string
}

func vfKeyOf(o *spb.AFTOperation) vfInstalledKey {
	k := vfInstalledKey{ni: o.GetNetworkInstance()}
	switch e := o.Entry.(type) {
	case *spb.AFTOperation_Ipv4:
		k.kind, k.str = 1, e.Ipv4.GetPrefix()
	case *spb.AFTOperation_Ipv6:
		k.kind, k.str = 2, e.Ipv6.GetPrefix()
	case *spb.AFTOperation_Mpls:
		k.kind, k.num = 3, e.Mpls.GetLabelUint64()
	case *spb.AFTOperation_NextHopGroup:
		k.kind, k.num = 4, e.NextHopGroup.GetId()
	case *spb.AFTOperation_NextHop:
		k.kind, k.num = 5, e.NextHop.GetIndex()
	}
	return k
}

// c2s: what the faulty server does with a request before its (conformant) core sees it; nil: swallowed
// (resp, when non-nil, is sent back instead).
func (c *vfConn) faultC2S(p *vfModPipe, m *spb.ModifyRequest) (fwd *spb.ModifyRequest, resp *spb.ModifyResponse) {
	if e := m.ElectionId; e != nil && (c.curElection == nil || e.High > c.curElection.High || (e.High == c.curElection.High && e.Low >= c.curElection.Low)) {
		// the highest id announced on this connection: what a conformant core reports as current
		c.curElection = &spb.Uint128{High: e.High, Low: e.Low}
	}
	if e := m.ElectionId; e != nil {
		p.lastAnnounced = &spb.Uint128{High: e.High, Low: e.Low}
	}
	switch c.fault {
	case vfFaultAcceptsRepeatedParams:
		if m.Params != nil {
			if p.sawParams {
				return nil, &spb.ModifyResponse{SessionParamsResult: &spb.SessionParametersResult{Status: spb.SessionParametersResult_OK}}
			}
			p.sawParams = true
		}
	case vfFaultIgnoresOperationElectionID:
		if len(m.Operation) != 0 && c.curElection != nil {
			n := proto.Clone(m).(*spb.ModifyRequest)
			for _, o := range n.Operation {
				o.ElectionId = &spb.Uint128{High: c.curElection.High, Low: c.curElection.Low}
			}
			return n, nil
		}
	case vfFaultDeleteOfAbsentFails:
		for _, o := range m.Operation {
			p.ops[o.Id] = o
		}
	}
	return m, nil
}

// s2c: what the faulty server does with a response of its core before the client sees it.
func (c *vfConn) faultS2C(p *vfModPipe, r *spb.ModifyResponse) *spb.ModifyResponse {
	switch c.fault {
	case vfFaultNoFIBAck:
		n := proto.Clone(r).(*spb.ModifyResponse)
		n.Result = nil
		for _, x := range r.Result {
			if x.Status != spb.AFTResult_FIB_PROGRAMMED {
				n.Result = append(n.Result, x)
			}
		}
		if len(r.Result) != 0 && len(n.Result) == 0 {
			return nil
		}
		return n
	case vfFaultEchoesOwnElectionID:
		if r.ElectionId != nil && p.lastAnnounced != nil {
			n := proto.Clone(r).(*spb.ModifyResponse)
			n.ElectionId = &spb.Uint128{High: p.lastAnnounced.High, Low: p.lastAnnounced.Low}
			return n
		}
	case vfFaultMisreportsElectionID:
		if r.ElectionId != nil {
			n := proto.Clone(r).(*spb.ModifyResponse)
			n.ElectionId.High++ // (an off-by-one in the low word can coincide with an id the suite announces next)
			return n
		}
	case vfFaultDeleteOfAbsentFails:
		n := proto.Clone(r).(*spb.ModifyResponse)
		for _, x := range n.Result {
			o := p.ops[x.Id]
			if o == nil {
				continue
			}
			k := vfKeyOf(o)
			switch {
			case o.Op == spb.AFTOperation_DELETE && !c.installed[k] && x.Status != spb.AFTResult_FAILED:
				x.Status = spb.AFTResult_FAILED
			case o.Op == spb.AFTOperation_DELETE && x.Status == spb.AFTResult_RIB_PROGRAMMED:
				delete(c.installed, k)
			case o.Op != spb.AFTOperation_DELETE && x.Status == spb.AFTResult_RIB_PROGRAMMED:
				c.installed[k] = true
			}
		}
		return n
	}
	return r
}

// VfC19_faulty: for every member of the catalogue and every test written for the requirement it breaks, the
// test FAILS - for every configuration.  (Tests not written for the requirement are not judged.)
func VfC19_faulty() {
	vfConfigure()
	f := vfFault(vfInt("fault", 1, int(vfNFaults)-1))
	ts := TestSuite[vfInt("test", 0, len(TestSuite)-1)]
	if !vfWrittenFor(f, ts) {
		vfReach("not-written-for-this-requirement")
		return
	}
	conn := &vfConn{srv: vfNewServer(ts.In.RequiresDisallowedForwardReferences), fault: f}
	failed, skipped := vfVerdictS(conn, ts)
	if skipped {
		// a test that skips itself gives no verdict (FlushOfAllNIs carries a TODO and t.Skip())
		vfReach("skipped")
		return
	}
	vfAssert(failed, "C19:test-written-for-a-requirement-fails-on-a-server-that-breaks-it")
	vfReach("judged")
	vfReach("end")
}

// vfSuiteRun: the WHOLE suite, test after test, on ONE long-lived server per server mode, in the order
// start, start+step, start+2*step ... (indices modulo the suite size; step = -1 runs backwards).
func vfSuiteRun(start, step int) {
	vfConfigure()
	n := len(TestSuite)
	conns := map[bool]*vfConn{}
	for k := 0; k < n; k++ {
		i := ((start+k*step)%n + n) % n
		ts := TestSuite[i]
		mode := ts.In.RequiresDisallowedForwardReferences
		if conns[mode] == nil {
			conns[mode] = &vfConn{srv: vfNewServer(mode)}
		}
		failed := vfVerdict(conns[mode], ts)
		vfAssert(failed == vfWantsFailure(ts), "C19:verdict-independent-of-the-tests-run-before")
	}
	vfReach("end")
}

// VfC19_suite: the whole suite on one long-lived server in file order and in reverse file order.
func VfC19_suite() {
	if vfBool("reverse") {
		vfSuiteRun(len(TestSuite)-1, -1)
	} else {
		vfSuiteRun(0, 1)
	}
}

// VfC19_suiteRot: the whole suite on one long-lived server in every rotation of the file order, forwards
// and backwards (158 permutations; the set of all permutations is outside).
func VfC19_suiteRot() {
	start := vfInt("start", 0, len(TestSuite)-1)
	if vfBool("reverse") {
		vfSuiteRun(start, -1)
	} else {
		vfSuiteRun(start, 1)
	}
}
