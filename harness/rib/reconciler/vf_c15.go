//go:build verif

package reconciler

import (
	"context"
	"sync/atomic"

	"github.com/openconfig/gribigo/rib"

	aftpb "github.com/openconfig/gribi/v1/proto/gribi_aft"
	spb "github.com/openconfig/gribi/v1/proto/service"
)

func init() {
	vfRegister("VfC15_reconcile_q", VfC15_reconcile_q)
	vfRegister("VfC15_reconcile_t", VfC15_reconcile_t)
	vfRegister("VfC15_reconcile_qx", VfC15_reconcile_qx)
	vfRegister("VfC15_reconcile_qw", VfC15_reconcile_qw)
	vfRegister("VfC15_reconcile_qb", VfC15_reconcile_qb)
	vfRegister("VfC15_reconcile_qbt", VfC15_reconcile_qbt)
}

func vfC15(nNH, nNHG, nTop, members int, kinds []int) {
	I := rib.VfBuild("I.", nNH, nNHG, nTop, members, kinds, false)
	T := rib.VfBuild("T.", nNH, nNHG, nTop, members, kinds, false)
	vfC15Run(I, T, vfBool("target-only-instance"))
}

var vfC15MapOrder, vfC15MapOrderTearDown = false, false

func vfC15Run(I, T *rib.VfWorld, extra bool) {
	if extra {
		T.AddInstance("VRF-B")
		seed := &spb.AFTOperation{Id: 1 << 62, NetworkInstance: "VRF-B", Op: spb.AFTOperation_ADD,
			Entry: &spb.AFTOperation_NextHop{NextHop: &aftpb.Afts_NextHopKey{Index: vfU64("T.vrfb.nh"), NextHop: &aftpb.Afts_NextHop{}}}}
		vfAssume(T.Apply(seed))
	}
	vfReach("built")
	base := vfU64("id.base")
	vfAssume(base < 1<<40)
	var id atomic.Uint64
	id.Store(base)
	rec := New(NewLocalRIB(I.R), NewLocalRIB(T.R))
	// the reconciler walks Go maps: within a group of operations (Delete.NHG, ...) the order is whatever the map
	// gives, and the documented order says nothing about it - every iteration order is explored
	vfMapOrder(vfC15MapOrder)
	ops, err := rec.Reconcile(context.Background(), &id)
	vfMapOrder(false)
	vfAssert(err == nil, "C15:reconcile-succeeds")
	if err != nil {
		return
	}
	// the documented dependency order
	var seq []*spb.AFTOperation
	seq = append(seq, ops.Add.NH...)
	seq = append(seq, ops.Add.NHG...)
	seq = append(seq, ops.Add.TopLevel...)
	seq = append(seq, ops.Replace.NH...)
	seq = append(seq, ops.Replace.NHG...)
	seq = append(seq, ops.Replace.TopLevel...)
	seq = append(seq, ops.Delete.TopLevel...)
	seq = append(seq, ops.Delete.NHG...)
	seq = append(seq, ops.Delete.NH...)
	n := uint64(len(seq))
	for i, o := range seq {
		vfAssert(vfAnd(o.Id > base, o.Id <= base+n), "C15:ids-count-up-from-the-base")
		for j := 0; j < i; j++ {
			vfAssert(o.Id != seq[j].Id, "C15:ids-distinct")
		}
	}
	for _, o := range seq {
		vfAssert(T.Apply(o), "C15:every-operation-succeeds-in-the-documented-order")
	}
	I.TablesEqual(T.R, "C15:target-")
	if extra {
		_, ok := T.R.NetworkInstanceRIB("VRF-B")
		vfAssert(ok, "C15:instance-kept")
		c, err := T.R.RIBContents()
		vfAssert(err == nil, "C15:contents-readable")
		if err == nil && c["VRF-B"] != nil {
			if a := c["VRF-B"].GetAfts(); a != nil {
				vfAssert(len(a.NextHop)+len(a.NextHopGroup)+len(a.Ipv4Entry)+len(a.Ipv6Entry)+len(a.LabelEntry) == 0, "C15:entries-of-a-target-only-instance-are-removed")
			}
		}
	}
	// now the RIBs are equal: reconciling again yields nothing
	ops2, err := rec.Reconcile(context.Background(), &id)
	vfAssert(err == nil && ops2.IsEmpty(), "C15:equal-ribs-yield-no-operations")
	// a further round: the converged target is reconciled towards an EMPTY intended RIB - every entry must be
	// deletable in the documented order (bookkeeping left wrong by the first round shows up here)
	if !extra {
		E := rib.VfEmpty()
		rec3 := New(NewLocalRIB(E.R), NewLocalRIB(T.R))
		vfMapOrder(vfC15MapOrderTearDown)
		ops3, err := rec3.Reconcile(context.Background(), &id)
		vfMapOrder(false)
		vfAssert(err == nil, "C15:reconcile-succeeds")
		if err == nil {
			var seq3 []*spb.AFTOperation
			seq3 = append(seq3, ops3.Delete.TopLevel...)
			seq3 = append(seq3, ops3.Delete.NHG...)
			seq3 = append(seq3, ops3.Delete.NH...)
			vfAssert(len(ops3.Add.NH)+len(ops3.Add.NHG)+len(ops3.Add.TopLevel)+len(ops3.Replace.NH)+len(ops3.Replace.NHG)+len(ops3.Replace.TopLevel) == 0, "C15:tear-down-only-deletes")
			for _, o := range seq3 {
				vfAssert(T.Apply(o), "C15:every-operation-succeeds-in-the-documented-order")
			}
			E.TablesEqual(T.R, "C15:target-")
		}
	}
	vfReach("end")
}

// reconcile_qx: cross-instance references - a next-hop and a group in each instance on both sides, one IPv4
// entry per side in either instance whose group instance is unset (= its own instance) or explicit.
func VfC15_reconcile_qx() { vfC15Run(rib.VfBuildSplit("I."), rib.VfBuildSplit("T."), false) }

// reconcile_qw: weighted groups - one next-hop and one group on each side whose member carries an optional weight
// of any value: a group that keeps its member but changes the weight is replaced, and everything can be torn down
// afterwards.
func VfC15_reconcile_qw() { vfC15Run(rib.VfBuildWeighted("I."), rib.VfBuildWeighted("T."), false) }

// reconcile_qb: backup groups - up to two groups on each side, either naming the other as its backup (chains and
// cycles): groups that leave are deleted in whatever order the reconciler's maps give, and everything can be torn
// down afterwards.
func VfC15_reconcile_qb() {
	vfC15MapOrder = true
	vfC15Run(rib.VfBuildBackup("I."), rib.VfBuildBackup("T."), false)
}

// reconcile_qbt: as qb, and the tear-down round also runs in every map order.
func VfC15_reconcile_qbt() {
	vfC15MapOrder, vfC15MapOrderTearDown = true, true
	vfC15Run(rib.VfBuildBackup("I."), rib.VfBuildBackup("T."), false)
}

func VfC15_reconcile_q() { vfC15(1, 1, 1, 1, rib.VfKinds(true, false, true)) }
func VfC15_reconcile_t() { vfC15(2, 1, 1, 1, rib.VfKinds(true, false, false)) }
