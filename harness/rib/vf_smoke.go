//go:build verif

package rib

import (
	aftpb "github.com/openconfig/gribi/v1/proto/gribi_aft"
	spb "github.com/openconfig/gribi/v1/proto/service"
)

func init() { vfRegister("VfSmoke_AddNH", VfSmoke_AddNH) }

func VfSmoke_AddNH() {
	r := New("DEFAULT")
	idx := vfU64("idx")
	op := &spb.AFTOperation{Id: 1, NetworkInstance: "DEFAULT", Op: spb.AFTOperation_ADD,
		Entry: &spb.AFTOperation_NextHop{NextHop: &aftpb.Afts_NextHopKey{Index: idx, NextHop: &aftpb.Afts_NextHop{}}}}
	oks, fails, err := r.AddEntry("DEFAULT", op)
	vfAssert(err == nil, "no-err")
	if idx == 0 {
		vfAssert(len(fails) == 1, "zero-index-fails")
		vfReach("zero")
	} else {
		vfAssert(len(oks) == 1, "ok")
		_, ok := r.niRIB["DEFAULT"].r.Afts.NextHop[idx]
		vfAssert(ok, "installed")
		vfReach("installed")
	}
	vfReach("end")
}
