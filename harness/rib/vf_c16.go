//go:build verif

package rib

import (
	"sync"

	"github.com/openconfig/gribigo/aft"
	"github.com/openconfig/gribigo/constants"
	"github.com/openconfig/ygot/ygot"

	aftpb "github.com/openconfig/gribi/v1/proto/gribi_aft"
	spb "github.com/openconfig/gribi/v1/proto/service"
)

func init() {
	vfRegister("VfC16_mirror_q", VfC16_mirror_q)
	vfRegister("VfC16_mirror_q1", VfC16_mirror_q1)
	vfRegister("VfC16_mirror_t", VfC16_mirror_t)
	vfRegister("VfC16_flush", VfC16_flush)
	vfRegister("VfC16_resolved", VfC16_resolved)
	vfRegister("VfC16_resolvedCascade", VfC16_resolvedCascade)
	vfRegister("VfC16_hookVsNewInstance", VfC16_hookVsNewInstance)
}

// vfMirror folds post-change notifications: ADD carries the new entry, DELETE the removed one.
type vfMirTop struct {
	nhg      uint64
	hasNHGNI bool
	nhgNI    string
	md       []byte
}

type vfMirror struct {
	v4, v6 map[string]map[string]vfMirTop // ni -> prefix -> payload
	mpls   map[string]map[uint64]vfMirTop // ni -> label -> payload
	nhg    map[string]map[uint64]int    // ni -> id -> member count
	nh     map[string]map[uint64]bool
}

func vfNewMirror() *vfMirror {
	return &vfMirror{v4: map[string]map[string]vfMirTop{}, v6: map[string]map[string]vfMirTop{}, mpls: map[string]map[uint64]vfMirTop{},
		nhg: map[string]map[uint64]int{}, nh: map[string]map[uint64]bool{}}
}

func (m *vfMirror) hook(op constants.OpType, ts int64, ni string, data ygot.ValidatedGoStruct) {
	add := op == constants.Add
	switch t := data.(type) {
	case *aft.Afts_Ipv4Entry:
		if t == nil {
			return
		}
		if m.v4[ni] == nil {
			m.v4[ni] = map[string]vfMirTop{}
		}
		if add {
			m.v4[ni][t.GetPrefix()] = vfMirTop{nhg: t.GetNextHopGroup(), hasNHGNI: t.NextHopGroupNetworkInstance != nil, nhgNI: t.GetNextHopGroupNetworkInstance(), md: t.EntryMetadata}
		} else {
			delete(m.v4[ni], t.GetPrefix())
		}
	case *aft.Afts_Ipv6Entry:
		if t == nil {
			return
		}
		if m.v6[ni] == nil {
			m.v6[ni] = map[string]vfMirTop{}
		}
		if add {
			m.v6[ni][t.GetPrefix()] = vfMirTop{nhg: t.GetNextHopGroup(), hasNHGNI: t.NextHopGroupNetworkInstance != nil, nhgNI: t.GetNextHopGroupNetworkInstance(), md: t.EntryMetadata}
		} else {
			delete(m.v6[ni], t.GetPrefix())
		}
	case *aft.Afts_LabelEntry:
		if t == nil {
			return
		}
		if m.mpls[ni] == nil {
			m.mpls[ni] = map[uint64]vfMirTop{}
		}
		l, ok := t.GetLabel().(aft.UnionUint32)
		if !ok {
			return
		}
		if add {
			m.mpls[ni][uint64(l)] = vfMirTop{nhg: t.GetNextHopGroup(), hasNHGNI: t.NextHopGroupNetworkInstance != nil, nhgNI: t.GetNextHopGroupNetworkInstance(), md: t.EntryMetadata}
		} else {
			delete(m.mpls[ni], uint64(l))
		}
	case *aft.Afts_NextHopGroup:
		if t == nil {
			return
		}
		if m.nhg[ni] == nil {
			m.nhg[ni] = map[uint64]int{}
		}
		if add {
			m.nhg[ni][t.GetId()] = len(t.NextHop)
		} else {
			delete(m.nhg[ni], t.GetId())
		}
	case *aft.Afts_NextHop:
		if t == nil {
			return
		}
		if m.nh[ni] == nil {
			m.nh[ni] = map[uint64]bool{}
		}
		if add {
			m.nh[ni][t.GetIndex()] = true
		} else {
			delete(m.nh[ni], t.GetIndex())
		}
	}
}

// compare: the mirror reconstructs exactly the installed entries (per the reference state).
func (m *vfMirror) compare(ref *vfRef) {
	for _, name := range ref.names {
		n := ref.ni[name]
		vfAssert(len(m.v4[name]) == len(n.v4), "C16:mirror-ipv4-count")
		for k, t := range n.v4 {
			g, ok := m.v4[name][k]
			vfAssert(ok, "C16:mirror-has-installed-ipv4-entry")
			vfAssert(vfAnd(g.nhg == t.nhg, vfAnd(vfEqSV(g.hasNHGNI, g.nhgNI, t.hasNHGNI, t.nhgNI), vfEqBV(g.md != nil, g.md, t.hasMD, t.md))), "C16:mirror-ipv4-entry-payload")
		}
		vfAssert(len(m.v6[name]) == len(n.v6), "C16:mirror-ipv6-count")
		for k, t := range n.v6 {
			g, ok := m.v6[name][k]
			vfAssert(ok, "C16:mirror-has-installed-ipv6-entry")
			vfAssert(vfAnd(g.nhg == t.nhg, vfAnd(vfEqSV(g.hasNHGNI, g.nhgNI, t.hasNHGNI, t.nhgNI), vfEqBV(g.md != nil, g.md, t.hasMD, t.md))), "C16:mirror-ipv6-entry-payload")
		}
		vfAssert(len(m.mpls[name]) == len(n.mpls), "C16:mirror-mpls-count")
		for k, t := range n.mpls {
			g, ok := m.mpls[name][k]
			vfAssert(ok, "C16:mirror-has-installed-mpls-entry")
			vfAssert(vfAnd(g.nhg == t.nhg, vfAnd(vfEqSV(g.hasNHGNI, g.nhgNI, t.hasNHGNI, t.nhgNI), vfEqBV(g.md != nil, g.md, t.hasMD, t.md))), "C16:mirror-mpls-entry-payload")
		}
		vfAssert(len(m.nhg[name]) == len(n.nhg), "C16:mirror-group-count")
		for k, g := range n.nhg {
			c, ok := m.nhg[name][k]
			vfAssert(ok, "C16:mirror-has-installed-group")
			vfAssert(c == len(g.members), "C16:mirror-group-members")
		}
		vfAssert(len(m.nh[name]) == len(n.nh), "C16:mirror-next-hop-count")
		for k := range n.nh {
			vfAssert(m.nh[name][k], "C16:mirror-has-installed-next-hop")
		}
	}
}

func vfMirrorRun(c vfRunCfg) {
	r, ref := vfNewPair(!c.noFwd)
	m := vfNewMirror()
	r.SetPostChangeHook(m.hook)
	g := &vfGen{rich: c.rich, fixLow: c.fixLow}
	vfCanonical(r, ref, g, c.pre)
	m.compare(ref)
	vfReach("pre-built")
	for i := 0; i < c.steps; i++ {
		d := g.anyOf("op", c.members, 1, 3, c.kinds)
		vfSubmit(r, ref, d)
		m.compare(ref)
	}
	vfReach("end")
}

func VfC16_mirror_q() {
	vfMirrorRun(vfRunCfg{pre: vfPreCfg{nNH: 1, nNHG: 1, nHeld: 1, members: 1, topKinds: vfTopQ}, fixLow: true, steps: 1, members: 1})
}

func VfC16_mirror_q1() {
	vfMirrorRun(vfRunCfg{pre: vfPreCfg{nNH: 1, nNHG: 1, nTop: 1, members: 1, topKinds: vfTopQ}, fixLow: true, steps: 1, members: 1})
}

func VfC16_mirror_t() {
	vfMirrorRun(vfRunCfg{pre: vfPreCfg{nNH: 1, nNHG: 1, nTop: 1, members: 1, topKinds: vfTopAll}, rich: true, fixLow: true, steps: 1, members: 2})
}

// VfC16_hookVsNewInstance: the consumer registers its hook WHILE a network instance is being created (two
// goroutines, every schedule with up to 2 pre-emptions at synchronisation points): whichever comes first, a
// change in the new instance afterwards reaches the consumer.
func VfC16_hookVsNewInstance() {
	r := New("DEFAULT")
	n := 0
	lateNI := ""
	hook := func(o constants.OpType, ts int64, ni string, e ygot.ValidatedGoStruct) {
		n++
		lateNI = ni
	}
	var wg sync.WaitGroup
	wg.Add(2)
	vfSched(2)
	go func() {
		defer wg.Done()
		r.SetPostChangeHook(hook)
	}()
	go func() {
		defer wg.Done()
		if err := r.AddNetworkInstance("VRF-LATE"); err != nil {
			panic(err)
		}
	}()
	wg.Wait()
	vfSched(0)
	op := &spb.AFTOperation{Id: 1, NetworkInstance: "VRF-LATE", Op: spb.AFTOperation_ADD,
		Entry: &spb.AFTOperation_NextHop{NextHop: &aftpb.Afts_NextHopKey{Index: vfU64("nh"), NextHop: &aftpb.Afts_NextHop{}}}}
	oks, _, err := r.AddEntry("VRF-LATE", op)
	vfAssume(err == nil && len(oks) == 1)
	vfAssert(n == 1 && lateNI == "VRF-LATE", "C16:instance-created-during-hook-registration-notifies")
	vfReach("end")
}

// VfC16_flush: notifications issued by Flush.
func VfC16_flush() {
	r, ref := vfNewPair(true)
	m := vfNewMirror()
	r.SetPostChangeHook(m.hook)
	g := &vfGen{rich: true, fixLow: true}
	vfCanonical(r, ref, g, vfPreCfg{nNH: 1, nNHG: 1, nTop: 1, members: 1, topKinds: vfTopAll})
	vfReach("pre-built")
	var nis []string
	switch vfInt("flush.sel", 0, 2) {
	case 0:
		nis = []string{"DEFAULT"}
	case 1:
		nis = []string{"VRF-A"}
	case 2:
		nis = []string{"DEFAULT", "VRF-A"}
	}
	if err := r.Flush(nis); err != nil {
		vfReach("flush-error")
	}
	ref.flush(nis)
	m.compare(ref)
	vfReach("end")
}

type vfResolvedNote struct {
	ribs map[string]*aft.RIB
	op   constants.OpType
	ni   string
	kind constants.AFT
	key  any
}

func vfSnapshotHas(n vfResolvedNote) bool {
	rr := n.ribs[n.ni]
	if rr == nil || rr.Afts == nil {
		return false
	}
	switch n.kind {
	case constants.IPv4:
		_, ok := rr.Afts.Ipv4Entry[n.key.(string)]
		return ok
	case constants.IPv6:
		_, ok := rr.Afts.Ipv6Entry[n.key.(string)]
		return ok
	case constants.MPLS:
		switch k := n.key.(type) {
		case uint64:
			_, ok := rr.Afts.LabelEntry[aft.UnionUint32(uint32(k))]
			return ok
		case aft.Afts_LabelEntry_Label_Union:
			_, ok := rr.Afts.LabelEntry[k]
			return ok
		}
	}
	return false
}

// VfC16_resolvedCascade: the resolved-entry hook for an entry that was HELD and is installed by a cascade: an
// IPv4 entry in either instance waits for a group of the default instance (implicit or explicit reference); the
// group's ADD (an operation in the DEFAULT instance) resolves it: the notification names the ENTRY's instance and
// its snapshot of that instance contains the entry.
func VfC16_resolvedCascade() {
	r, ref := vfNewPair(true)
	notes := make(chan vfResolvedNote, 16)
	r.SetResolvedEntryHook(func(ribs map[string]*aft.RIB, op constants.OpType, ni string, kind constants.AFT, key any, dets ...ResolvedDetails) {
		notes <- vfResolvedNote{ribs: ribs, op: op, ni: ni, kind: kind, key: key}
	})
	g := &vfGen{}
	nh := &vfOpD{id: g.id(), typ: vfADD, kind: vfKNH, ni: "DEFAULT", idx: vfU64("nh"), hasBody: true}
	vfAssume(vfSubmit(r, ref, nh) == vfStAcked)
	ent := &vfOpD{id: g.id(), typ: vfADD, kind: vfKV4, ni: vfKnownNI("ent"), pfx: vfStrK("pfx", "prefix4"), hasBody: true, hasNHG: true, nhg: vfU64("nhg")}
	if ent.ni != "DEFAULT" || vfBool("explicit-instance") {
		ent.hasNHGNI, ent.nhgNI = true, "DEFAULT"
	}
	vfAssume(vfSubmit(r, ref, ent) == vfStHeld)
	grp := &vfOpD{id: g.id(), typ: vfADD, kind: vfKNHG, ni: "DEFAULT", idx: ent.nhg, hasBody: true, members: []vfMember{{idx: nh.idx}}}
	vfAssume(vfSubmit(r, ref, grp) == vfStAcked)
	vfAssert(len(ref.held) == 0, "C16:cascade-resolved-the-held-entry")
	var got *vfResolvedNote
	for {
		var n vfResolvedNote
		more := true
		select {
		case n = <-notes:
		default:
			if vfEngine() {
				if vfQuiesce(); len(notes) > 0 {
					continue
				}
			} else if got == nil {
				n = <-notes // natively the hook runs in its own goroutine: wait for the first note
				break
			}
			more = false
		}
		if !more {
			break
		}
		if n.kind == constants.IPv4 {
			c := n
			got = &c
		}
	}
	vfAssert(got != nil, "C16:resolved-hook-announces-entry-installed-by-cascade")
	if got != nil {
		vfAssert(got.op == constants.Add && got.ni == ent.ni, "C16:resolved-hook-names-the-entrys-own-instance")
		vfAssert(vfSnapshotHas(*got), "C16:snapshot-contains-added-entry")
	}
	vfReach("end")
}

// VfC16_resolved: the resolved-entry hook receives a private snapshot that contains the
// entry for an ADD, lacks it for a DELETE, and is unaffected by later changes.
func VfC16_resolved() {
	r, ref := vfNewPair(true)
	notes := make(chan vfResolvedNote, 16)
	r.SetResolvedEntryHook(func(ribs map[string]*aft.RIB, op constants.OpType, ni string, kind constants.AFT, key any, dets ...ResolvedDetails) {
		notes <- vfResolvedNote{ribs: ribs, op: op, ni: ni, kind: kind, key: key}
	})
	g := &vfGen{fixLow: true}
	vfCanonical(r, ref, g, vfPreCfg{nNH: 1, nNHG: 1, members: 1, topKinds: vfTopAll})
	// one top-level ADD (acknowledged), then its DELETE
	add := g.top("op", vfTopAll[vfInt("op.kind", 0, 2)])
	vfAssume(vfSubmit(r, ref, add) == vfStAcked)
	del := &vfOpD{id: g.id(), typ: vfDELETE, kind: add.kind, ni: add.ni, pfx: add.pfx, label: add.label, hasBody: true}
	var n1, n2 vfResolvedNote
	if vfBool("back-to-back") {
		// the DELETE follows at once: the consumer has not run yet - each snapshot must still show the state
		// at the moment of ITS change, not the state when the consumer gets to run
		vfAssume(vfSubmit(r, ref, del) == vfStAcked)
		a, b := <-notes, <-notes
		if a.op == constants.Add {
			n1, n2 = a, b
		} else {
			n1, n2 = b, a
		}
		vfReach("back-to-back")
	} else {
		n1 = <-notes
		vfAssume(vfSubmit(r, ref, del) == vfStAcked)
		n2 = <-notes
	}
	vfAssert(n1.op == constants.Add && n1.ni == add.ni, "C16:resolved-hook-announces-add")
	vfAssert(vfSnapshotHas(n1), "C16:snapshot-contains-added-entry")
	vfAssert(n1.ribs[add.ni] != r.niRIB[add.ni].r, "C16:snapshot-is-private")
	vfAssert(n2.op == constants.Delete && n2.ni == add.ni, "C16:resolved-hook-announces-delete")
	vfAssert(!vfSnapshotHas(n2), "C16:snapshot-lacks-deleted-entry")
	// the first snapshot is unaffected by the later DELETE
	vfAssert(vfSnapshotHas(n1), "C16:earlier-snapshot-unaffected-by-later-change")
	vfReach("end")
}
