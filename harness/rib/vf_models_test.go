//go:build verif

package rib

import (
	"encoding/json"
	"fmt"
	"math/rand"
	"os"
	"strconv"
	"testing"

	"github.com/google/go-cmp/cmp"
	"github.com/openconfig/gribigo/aft"
	"github.com/openconfig/ygot/ygot"
	"google.golang.org/protobuf/encoding/prototext"
	"google.golang.org/protobuf/proto"
	"google.golang.org/protobuf/testing/protocmp"

	aftpb "github.com/openconfig/gribi/v1/proto/gribi_aft"
	enums "github.com/openconfig/gribi/v1/proto/gribi_aft/enums"
	wpb "github.com/openconfig/ygot/proto/ywrapper"
)

func vfRandAfts(r *rand.Rand) *aftpb.Afts {
	u := func() *wpb.UintValue {
		if r.Intn(4) == 0 {
			return nil
		}
		return &wpb.UintValue{Value: uint64(r.Intn(5))}
	}
	s := func() *wpb.StringValue {
		if r.Intn(3) == 0 {
			return nil
		}
		return &wpb.StringValue{Value: []string{"", "DEFAULT", "VRF-A", "x"}[r.Intn(4)]}
	}
	md := func() *wpb.BytesValue {
		switch r.Intn(4) {
		case 0:
			return nil
		case 1:
			return &wpb.BytesValue{Value: []byte{1, 2, 3}}
		}
		return &wpb.BytesValue{Value: []byte{byte(r.Intn(256)), 0, 0, 0, 0, 0, 0, 0}}
	}
	en := func() enums.OpenconfigAftTypesEncapsulationHeaderType {
		switch r.Intn(12) {
		case 0:
			return enums.OpenconfigAftTypesEncapsulationHeaderType([]int32{-1, 9, 10, 99, 1<<31 - 1, -1 << 31}[r.Intn(6)])
		case 1, 2, 3:
			return enums.OpenconfigAftTypesEncapsulationHeaderType(r.Intn(9))
		}
		return 0
	}
	ip := func() *wpb.StringValue {
		return &wpb.StringValue{Value: []string{"192.0.2.1", "0.0.0.0", "255.255.255.255", "2001:db8::1", "2001:DB8::1", "::", "::1", "1:2:3:4:5:6:7:8", "1::8", "fe80::1",
			"", "1.2.3", "300.1.1.1", "01.2.3.4", "1.2.3.4/32", "fe80::1%eth0", "::ffff:1.2.3.4", "x", " 1.2.3.4", "1.2.3.4 ", "2001:db8::g", "1:2:3:4:5:6:7:8:9", "1.2.3.4\n", "x\n::1\ny"}[r.Intn(24)]}
	}
	mac := func() *wpb.StringValue {
		return &wpb.StringValue{Value: []string{"00:11:22:33:44:55", "AA:BB:CC:DD:EE:FF", "aa:bb:cc:dd:ee:ff", "", "00:11:22:33:44", "0:1:2:3:4:5", "00-11-22-33-44-55", "gg:11:22:33:44:55", "00:11:22:33:44:55:66"}[r.Intn(9)]}
	}
	labels := []uint64{0, 3, 15, 16, 100, 200, 1048575, 1048576, 1 << 32, 1<<32 + 100}
	// extended payload of a next-hop (address, MAC, interface reference, IP-in-IP, pushed label stack)
	nhx := func(n *aftpb.Afts_NextHop) {
		if r.Intn(3) == 0 {
			n.IpAddress = ip()
		}
		if r.Intn(4) == 0 {
			n.MacAddress = mac()
		}
		if r.Intn(3) == 0 {
			n.InterfaceRef = &aftpb.Afts_NextHop_InterfaceRef{}
			if r.Intn(3) != 0 {
				n.InterfaceRef.Interface = &wpb.StringValue{Value: []string{"eth0", "", "Ethernet1/1", "x y"}[r.Intn(4)]}
			}
			if r.Intn(2) == 0 {
				n.InterfaceRef.Subinterface = &wpb.UintValue{Value: []uint64{0, 1, 7, 1<<32 - 1, 1 << 32, 1 << 40}[r.Intn(6)]}
			}
		}
		if r.Intn(4) == 0 {
			n.IpInIp = &aftpb.Afts_NextHop_IpInIp{}
			if r.Intn(3) != 0 {
				n.IpInIp.SrcIp = ip()
			}
			if r.Intn(3) != 0 {
				n.IpInIp.DstIp = ip()
			}
		}
		if r.Intn(3) == 0 {
			// encap headers: MPLS (label stack, traffic class) and UDPv6 (addresses, ports, DSCP, TTL), distinct indices
			uvv := func(vals ...uint64) *wpb.UintValue {
				if r.Intn(3) == 0 {
					return nil
				}
				return &wpb.UintValue{Value: vals[r.Intn(len(vals))]}
			}
			perm := r.Perm(3)
			for i, k := 0, 1+r.Intn(2); i < k; i++ {
				idx := []uint64{0, 1, 2}[perm[i]]
				if r.Intn(12) == 0 {
					idx = []uint64{255, 256, 1 << 40}[r.Intn(3)]
				}
				h := &aftpb.Afts_NextHop_EncapHeader{Type: en()}
				switch r.Intn(3) {
				case 0:
					h.Mpls = &aftpb.Afts_NextHop_EncapHeader_Mpls{TrafficClass: uvv(0, 1, 7, 7, 8, 256)}
					for j, m := 0, r.Intn(4); j < m; j++ {
						l := labels[3+r.Intn(4)]
						if r.Intn(8) == 0 {
							l = labels[r.Intn(len(labels))]
						}
						h.Mpls.MplsLabelStack = append(h.Mpls.MplsLabelStack, &aftpb.Afts_NextHop_EncapHeader_Mpls_MplsLabelStackUnion{MplsLabelStackUint64: l})
					}
				case 1:
					h.UdpV6 = &aftpb.Afts_NextHop_EncapHeader_UdpV6{Dscp: uvv(0, 10, 63, 63, 64, 256), DstUdpPort: uvv(0, 6635, 65535, 65535, 65536), SrcUdpPort: uvv(0, 1234, 65535, 1 << 40),
						IpTtl: uvv(0, 64, 255, 255, 256)}
					if r.Intn(2) == 0 {
						h.UdpV6.SrcIp = ip()
					}
					if r.Intn(2) == 0 {
						h.UdpV6.DstIp = ip()
					}
				}
				n.EncapHeader = append(n.EncapHeader, &aftpb.Afts_NextHop_EncapHeaderKey{Index: idx, EncapHeader: h})
			}
			if len(n.EncapHeader) == 2 && r.Intn(6) == 0 {
				// an undefined type number in the FIRST of two headers (the second one is fine)
				n.EncapHeader[0].EncapHeader.Type = enums.OpenconfigAftTypesEncapsulationHeaderType([]int32{-1, 9, 99}[r.Intn(3)])
				n.EncapHeader[1].EncapHeader.Type = enums.OpenconfigAftTypesEncapsulationHeaderType(4)
			}
		}
		if r.Intn(3) == 0 {
			for i, k := 0, 1+r.Intn(3); i < k; i++ {
				l := labels[3+r.Intn(4)]
				if r.Intn(6) == 0 {
					l = labels[r.Intn(len(labels))]
				}
				n.PushedMplsLabelStack = append(n.PushedMplsLabelStack, &aftpb.Afts_NextHop_PushedMplsLabelStackUnion{PushedMplsLabelStackUint64: l})
			}
		}
	}
	a := &aftpb.Afts{}
	switch r.Intn(5) {
	case 0:
		p := []string{"1.1.1.1/32", "10.0.0.0/8", "", "1.1.1.1", "300.1.1.1/32", "1.1.1.1/33", "2001:db8::/32", "0.0.0.0/0", "01.1.1.1/32"}[r.Intn(9)]
		e := &aftpb.Afts_Ipv4EntryKey{Prefix: p}
		if r.Intn(5) != 0 {
			e.Ipv4Entry = &aftpb.Afts_Ipv4Entry{NextHopGroup: u(), NextHopGroupNetworkInstance: s(), EntryMetadata: md(), DecapsulateHeader: en()}
		}
		a.Ipv4Entry = append(a.Ipv4Entry, e)
	case 1:
		p := []string{"2001:db8::/32", "::/0", "", "1.1.1.1/32", "2001:db8::1", "2001:db8::/129", "2001:DB8::/64", "::ffff:1.2.3.4/128", "fe80::1%eth0/64"}[r.Intn(9)]
		e := &aftpb.Afts_Ipv6EntryKey{Prefix: p}
		if r.Intn(5) != 0 {
			e.Ipv6Entry = &aftpb.Afts_Ipv6Entry{NextHopGroup: u(), NextHopGroupNetworkInstance: s(), EntryMetadata: md(), DecapsulateHeader: en()}
		}
		a.Ipv6Entry = append(a.Ipv6Entry, e)
	case 2:
		l := []uint64{0, 3, 15, 16, 100, 1048575, 1048576, 1 << 32, 1<<32 + 100}[r.Intn(9)]
		e := &aftpb.Afts_LabelEntryKey{Label: &aftpb.Afts_LabelEntryKey_LabelUint64{LabelUint64: l}}
		if r.Intn(12) == 0 {
			// enumerated labels: only undefined numbers are inside the model
			e.Label = &aftpb.Afts_LabelEntryKey_LabelOpenconfigmplstypesmplslabelenum{
				LabelOpenconfigmplstypesmplslabelenum: enums.OpenconfigMplsTypesMplsLabelEnum([]int32{-1, 5, 6, 7, 10, 99, 1<<31 - 1, -1 << 31}[r.Intn(8)])}
		}
		if r.Intn(5) != 0 {
			e.LabelEntry = &aftpb.Afts_LabelEntry{NextHopGroup: u(), NextHopGroupNetworkInstance: s(), EntryMetadata: md()}
			if r.Intn(3) == 0 {
				for i, k := 0, 1+r.Intn(3); i < k; i++ {
					l := labels[3+r.Intn(4)]
					if r.Intn(6) == 0 {
						l = labels[r.Intn(len(labels))]
					}
					e.LabelEntry.PoppedMplsLabelStack = append(e.LabelEntry.PoppedMplsLabelStack, &aftpb.Afts_LabelEntry_PoppedMplsLabelStackUnion{PoppedMplsLabelStackUint64: l})
				}
			}
		}
		a.LabelEntry = append(a.LabelEntry, e)
	case 3:
		e := &aftpb.Afts_NextHopGroupKey{Id: uint64(r.Intn(4))}
		if r.Intn(5) != 0 {
			g := &aftpb.Afts_NextHopGroup{BackupNextHopGroup: u(), Color: u()}
			for i, n := 0, r.Intn(4); i < n; i++ {
				m := &aftpb.Afts_NextHopGroup_NextHopKey{Index: uint64(r.Intn(3))}
				if r.Intn(3) != 0 {
					m.NextHop = &aftpb.Afts_NextHopGroup_NextHop{Weight: u()}
				}
				g.NextHop = append(g.NextHop, m)
			}
			e.NextHopGroup = g
		}
		a.NextHopGroup = append(a.NextHopGroup, e)
	case 4:
		e := &aftpb.Afts_NextHopKey{Index: uint64(r.Intn(4))}
		if r.Intn(5) != 0 {
			e.NextHop = &aftpb.Afts_NextHop{NetworkInstance: s(), EncapsulateHeader: en(), DecapsulateHeader: en()}
			if r.Intn(3) == 0 {
				e.NextHop.PopTopLabel = &wpb.BoolValue{Value: r.Intn(2) == 0}
			}
			nhx(e.NextHop)
		}
		a.NextHop = append(a.NextHop, e)
	}
	return a
}

func vfDupMembersDiffer(a *aftpb.Afts) bool {
	for _, g := range a.NextHopGroup {
		seen := map[uint64]string{}
		for _, m := range g.GetNextHopGroup().GetNextHop() {
			w := fmt.Sprint(m.GetNextHop().GetWeight())
			if o, ok := seen[m.GetIndex()]; ok && o != w {
				return true
			}
			seen[m.GetIndex()] = w
		}
	}
	return false
}

// TestVfModelAgreement pushes random modelled-field combinations through the
// real reflection pipeline and through the models and compares the results.
func TestVfModelAgreement(t *testing.T) {
	seed := int64(1)
	if s := os.Getenv("VERIF_SEED"); s != "" {
		v, _ := strconv.ParseInt(s, 10, 64)
		seed = v + 1
	}
	n := 400
	if s := os.Getenv("VF_AGREE_N"); s != "" {
		n, _ = strconv.Atoi(s)
	}
	r := rand.New(rand.NewSource(seed))
	agree := 0
	nRT := 0
	nPanic := 0
	for i := 0; i < n; i++ {
		a := vfRandAfts(r)
		if vfDupMembersDiffer(a) {
			// duplicate members with different weights: the real pipeline's result depends on
			// Go map iteration order (outside the model; harnesses never generate it)
			agree++
			continue
		}
		real, rerr, rpanic := vfCatchCandidate(candidateRIB, a)
		model, merr, mpanic := vfCatchCandidate(vfModelCandidateRIB, a)
		if rpanic != mpanic {
			t.Errorf("candidateRIB(%v): real panicked=%v, model panicked=%v", a, rpanic, mpanic)
			if rpanic {
				// the REAL conversion crashes on this payload: a concrete demonstration that one operation can take
				// the server down (C12), whatever the model says
				nPanic++
				if out := os.Getenv("VF_C12_PANIC_OUT"); out != "" && nPanic == 1 {
					b, _ := prototext.Marshal(a)
					os.WriteFile(out, b, 0o644)
				}
			}
			continue
		}
		if rpanic {
			agree++
			continue
		}
		if (rerr != nil) != (merr != nil) {
			t.Errorf("candidateRIB(%v): real err %v, model err %v", a, rerr, merr)
			continue
		}
		if rerr != nil {
			agree++
			continue
		}
		if d := cmp.Diff(real, model); d != "" {
			t.Errorf("candidateRIB(%v): real vs model (-real +model):\n%s", a, d)
			continue
		}
		// merge into a RIB that may already hold the key (with other field values)
		b := vfRandAfts(rand.New(rand.NewSource(r.Int63())))
		base1, err1, p1 := vfCatchCandidate(candidateRIB, b)
		if err1 != nil || p1 {
			agree++
			continue
		}
		c, _ := ygot.DeepCopy(base1)
		base2 := c.(*aft.RIB)
		e1 := ygot.MergeStructInto(base1, real)
		e2 := vfModelMergeStructInto(base2, model)
		if (e1 != nil) != (e2 != nil) {
			// real merge refuses conflicting leaves; the model merges. Only the no-conflict case must agree.
			agree++
			continue
		}
		if e1 == nil {
			if d := cmp.Diff(base1, base2); d != "" {
				t.Errorf("MergeStructInto(%v <- %v) (-real +model):\n%s", b, a, d)
				continue
			}
		}
		// C07 on the real code alone: an input that is already in canonical form (the model's round trip is the
		// identity on it - no empty containers, no duplicate members ...) must come back from the REAL round trip
		// candidateRIB -> ConcreteXXXProto exactly as it was programmed.  A failure is reported separately
		// (VFC07-ROUNDTRIP): it shows, on a concrete payload, that Get would not return what was programmed.
		if bad := vfRoundTripIdentity(a, real, model); bad != "" {
			nRT++
			if nRT <= 3 {
				t.Errorf("VFC07-ROUNDTRIP %s", bad)
				if out := os.Getenv("VF_C07_FAIL_OUT"); out != "" && nRT == 1 {
					b, _ := prototext.Marshal(a)
					os.WriteFile(out, b, 0o644)
				}
			}
			continue
		}
		// inverse direction
		for _, e := range real.GetAfts().Ipv4Entry {
			p1, x1 := ConcreteIPv4Proto(e)
			p2, x2 := vfModelConcreteIPv4Proto(e)
			if (x1 != nil) != (x2 != nil) || (x1 == nil && cmp.Diff(p1, p2, protocmp.Transform()) != "") {
				t.Errorf("ConcreteIPv4Proto(%v): %v/%v vs %v/%v", e, p1, x1, p2, x2)
			}
		}
		for _, e := range real.GetAfts().Ipv6Entry {
			p1, x1 := ConcreteIPv6Proto(e)
			p2, x2 := vfModelConcreteIPv6Proto(e)
			if (x1 != nil) != (x2 != nil) || (x1 == nil && cmp.Diff(p1, p2, protocmp.Transform()) != "") {
				t.Errorf("ConcreteIPv6Proto(%v): %v/%v vs %v/%v", e, p1, x1, p2, x2)
			}
		}
		for _, e := range real.GetAfts().LabelEntry {
			p1, x1 := ConcreteMPLSProto(e)
			p2, x2 := vfModelConcreteMPLSProto(e)
			if (x1 != nil) != (x2 != nil) || (x1 == nil && cmp.Diff(p1, p2, protocmp.Transform()) != "") {
				t.Errorf("ConcreteMPLSProto(%v): %v/%v vs %v/%v", e, p1, x1, p2, x2)
			}
		}
		for _, e := range real.GetAfts().NextHop {
			p1, x1 := ConcreteNextHopProto(e)
			p2, x2 := vfModelConcreteNextHopProto(e)
			if (x1 != nil) != (x2 != nil) || (x1 == nil && cmp.Diff(p1, p2, protocmp.Transform(), protocmp.SortRepeatedFields(&aftpb.Afts_NextHop{}, "encap_header")) != "") {
				t.Errorf("ConcreteNextHopProto(%v): %v/%v vs %v/%v", e, p1, x1, p2, x2)
			}
		}
		for _, e := range real.GetAfts().NextHopGroup {
			p1, x1 := ConcreteNextHopGroupProto(e)
			p2, x2 := vfModelConcreteNextHopGroupProto(e)
			if (x1 != nil) != (x2 != nil) || (x1 == nil && cmp.Diff(p1, p2, protocmp.Transform(), protocmp.SortRepeatedFields(&aftpb.Afts_NextHopGroup{}, "next_hop")) != "") {
				t.Errorf("ConcreteNextHopGroupProto(%v): %v/%v vs %v/%v", e, p1, x1, p2, x2)
			}
		}
		agree++
	}
	fmt.Printf("VFAGREE %d/%d\n", agree, n)
}

// vfRoundTripIdentity: for a canonical single-entry input a, does the real round trip return a?  ("" = yes or
// not applicable; otherwise a description).  Canonical: the MODEL's round trip returns a itself.
func vfRoundTripIdentity(a *aftpb.Afts, real, model *aft.RIB) string {
	sortNHG := protocmp.SortRepeatedFields(&aftpb.Afts_NextHopGroup{}, "next_hop")
	sortEH := protocmp.SortRepeatedFields(&aftpb.Afts_NextHop{}, "encap_header")
	eq := func(x, y proto.Message) bool { return cmp.Diff(x, y, protocmp.Transform(), sortNHG, sortEH) == "" }
	for _, in := range a.Ipv4Entry {
		me, re := model.GetAfts().Ipv4Entry[in.Prefix], real.GetAfts().Ipv4Entry[in.Prefix]
		if me == nil || re == nil {
			continue
		}
		if mp, err := vfModelConcreteIPv4Proto(me); err == nil && eq(mp, in) {
			if rp, err := ConcreteIPv4Proto(re); err != nil || !eq(rp, in) {
				return fmt.Sprintf("ipv4 entry programmed as %v comes back as %v (err %v)", in, rp, err)
			}
		}
	}
	for _, in := range a.Ipv6Entry {
		me, re := model.GetAfts().Ipv6Entry[in.Prefix], real.GetAfts().Ipv6Entry[in.Prefix]
		if me == nil || re == nil {
			continue
		}
		if mp, err := vfModelConcreteIPv6Proto(me); err == nil && eq(mp, in) {
			if rp, err := ConcreteIPv6Proto(re); err != nil || !eq(rp, in) {
				return fmt.Sprintf("ipv6 entry programmed as %v comes back as %v (err %v)", in, rp, err)
			}
		}
	}
	for _, in := range a.LabelEntry {
		k := aft.UnionUint32(uint32(in.GetLabelUint64()))
		me, re := model.GetAfts().LabelEntry[k], real.GetAfts().LabelEntry[k]
		if me == nil || re == nil {
			continue
		}
		if mp, err := vfModelConcreteMPLSProto(me); err == nil && eq(mp, in) {
			if rp, err := ConcreteMPLSProto(re); err != nil || !eq(rp, in) {
				return fmt.Sprintf("label entry programmed as %v comes back as %v (err %v)", in, rp, err)
			}
		}
	}
	for _, in := range a.NextHopGroup {
		me, re := model.GetAfts().NextHopGroup[in.Id], real.GetAfts().NextHopGroup[in.Id]
		if me == nil || re == nil {
			continue
		}
		if mp, err := vfModelConcreteNextHopGroupProto(me); err == nil && eq(mp, in) {
			if rp, err := ConcreteNextHopGroupProto(re); err != nil || !eq(rp, in) {
				return fmt.Sprintf("next-hop-group programmed as %v comes back as %v (err %v)", in, rp, err)
			}
		}
	}
	for _, in := range a.NextHop {
		me, re := model.GetAfts().NextHop[in.Index], real.GetAfts().NextHop[in.Index]
		if me == nil || re == nil {
			continue
		}
		if mp, err := vfModelConcreteNextHopProto(me); err == nil && eq(mp, in) {
			if rp, err := ConcreteNextHopProto(re); err != nil || !eq(rp, in) {
				return fmt.Sprintf("next-hop programmed as %v comes back as %v (err %v)", in, rp, err)
			}
		}
	}
	return ""
}

// TestVfPanicReplay re-runs the real conversion on the payload saved for a crash ($VF_C12_PAYLOAD).
func TestVfPanicReplay(t *testing.T) {
	p := os.Getenv("VF_C12_PAYLOAD")
	if p == "" {
		t.Skip("no VF_C12_PAYLOAD")
	}
	b, err := os.ReadFile(p)
	if err != nil {
		t.Fatal(err)
	}
	a := &aftpb.Afts{}
	if err := prototext.Unmarshal(b, a); err != nil {
		t.Fatal(err)
	}
	if _, _, panicked := vfCatchCandidate(candidateRIB, a); panicked {
		t.Fatalf("VFC12-PANIC candidateRIB panics on %v", a)
	}
}

// TestVfRoundTripReplay re-runs the real round trip on the payload saved by a VFC07-ROUNDTRIP failure ($VF_C07_PAYLOAD).
func TestVfRoundTripReplay(t *testing.T) {
	p := os.Getenv("VF_C07_PAYLOAD")
	if p == "" {
		t.Skip("no VF_C07_PAYLOAD")
	}
	b, err := os.ReadFile(p)
	if err != nil {
		t.Fatal(err)
	}
	a := &aftpb.Afts{}
	if err := prototext.Unmarshal(b, a); err != nil {
		t.Fatal(err)
	}
	real, rerr, rpanic := vfCatchCandidate(candidateRIB, a)
	model, merr, mpanic := vfCatchCandidate(vfModelCandidateRIB, a)
	if rerr != nil || merr != nil || rpanic || mpanic {
		t.Skipf("payload not accepted: %v %v", rerr, merr)
	}
	if bad := vfRoundTripIdentity(a, real, model); bad != "" {
		t.Fatalf("VFC07-ROUNDTRIP %s", bad)
	}
}

func vfCatchCandidate(f func(*aftpb.Afts) (*aft.RIB, error), a *aftpb.Afts) (r *aft.RIB, err error, panicked bool) {
	defer func() {
		if recover() != nil {
			panicked = true
		}
	}()
	r, err = f(a)
	return
}

// TestVfModelCalibrate measures facts about the real conversion functions that the models
// take as parameters, and writes them to $VF_CALIB_OUT.
func TestVfModelCalibrate(t *testing.T) {
	facts := vfMeasureCalib()
	b, _ := json.Marshal(facts)
	if out := os.Getenv("VF_CALIB_OUT"); out != "" {
		if err := os.WriteFile(out, b, 0o644); err != nil {
			t.Fatal(err)
		}
	}
	t.Logf("VFCALIB %s", b)
}
