//go:build verif

package rib

func init() {
	vfRegister("VfRIB_StepQuick", VfRIB_StepQuick)
}

// VfRIB_StepQuick: canonical pre-state (1 next-hop, 1 group with <=1 member,
// 1 top-level entry, 1 held operation; two network instances) + one fully
// symbolic operation, checked against the reference.
func VfRIB_StepQuick() {
	r, ref := vfNewPair(true)
	g := &vfGen{}
	vfCanonical(r, ref, g, vfPreCfg{nNH: 1, nNHG: 1, nTop: 1, nHeld: 1, members: 1, topKinds: []int{vfKV4, vfKMPLS}})
	vfReach("pre-built")
	d := g.any("op", 2)
	st := vfSubmit(r, ref, d)
	ref.compare(r)
	switch st {
	case vfStAcked:
		vfReach("acked")
	case vfStFailed:
		vfReach("failed")
	case vfStHeld:
		vfReach("held")
	case vfStErr:
		vfReach("error")
	}
	vfReach("end")
}
