//go:build verif

package rib

// Harness entry points of the RIB family (C01, C02, C03, C12 and the RIB half
// of C06): the same driver with different bounds; each check selects its own
// assertion labels with -only.

func init() {
	vfRegister("VfRIB_q1", VfRIB_q1)
	vfRegister("VfRIB_qPfx", VfRIB_qPfx)
	vfRegister("VfRIB_q2", VfRIB_q2)
	vfRegister("VfRIB_qNoFwd", VfRIB_qNoFwd)
	vfRegister("VfRIB_q3", VfRIB_q3)
	vfRegister("VfRIB_q3h", VfRIB_q3h)
	vfRegister("VfRIB_qW", VfRIB_qW)
	vfRegister("VfRIB_qx", VfRIB_qx)
	vfRegister("VfRIB_qo", VfRIB_qo)
	vfRegister("VfRIB_qx2", VfRIB_qx2)
	vfRegister("VfRIB_t1", VfRIB_t1)
	vfRegister("VfRIB_t1r", VfRIB_t1r)
	vfRegister("VfRIB_t2", VfRIB_t2)
	vfRegister("VfRIB_tOrder", VfRIB_tOrder)
	vfRegister("VfRIB_qEnum", VfRIB_qEnum)
	vfRegister("VfRIB_t3e", VfRIB_t3e)
	vfRegister("VfRIB_qPayload", VfRIB_qPayload)
	vfRegister("VfRIB_qPayloadTop", VfRIB_qPayloadTop)
	vfRegister("VfRIB_qPayloadEH", VfRIB_qPayloadEH)
}

// qPayload: next-hop operations carrying the extended payload (address, MAC, interface reference,
// IP-in-IP, pushed label stack: 13 shapes incl. schema-invalid strings, any 64-bit label / subinterface
// number) against a pre-state with one optional next-hop (valid payload of any shape) and one optional
// group: invalid content is malformed (C12), valid content is payload (C01: installed = last acknowledged,
// an ADD over an installed next-hop replaces the WHOLE payload).
func VfRIB_qPayload() {
	vfRIBRun(vfRunCfg{pre: vfPreCfg{nNH: 1, nNHG: 1, members: 1}, fixLow: true, payload: true, steps: 1, members: 1, kinds: []int{vfKNH}})
}

// qPayloadEH: as qPayload with the next-hop payload drawn from the encapsulation-header shapes: one MPLS header
// (index 0 or 255, stack of 2 labels, traffic class: ANY 64-bit numbers), one UDPv6 header with every field (ANY
// numbers for DSCP / ports / TTL, valid addresses), or two headers in either index order with a valid or a
// schema-invalid source address.
func VfRIB_qPayloadEH() {
	vfRIBRun(vfRunCfg{pre: vfPreCfg{nNH: 1, nNHG: 1, members: 1}, fixLow: true, payload: true, encap: true, steps: 1, members: 1, kinds: []int{vfKNH}})
}

// qPayloadTop: IPv4 / IPv6 / label entries with a decapsulate-header or a popped label stack (any 64-bit
// labels) over a pre-state of 1 next-hop, 1 group, 1 such entry.
func VfRIB_qPayloadTop() {
	vfRIBRun(vfRunCfg{pre: vfPreCfg{nNH: 1, nNHG: 1, nTop: 1, members: 1, topKinds: vfTopAll}, fixLow: true, payload: true, lean: true, steps: 1, members: 1, kinds: vfTopAll})
}

// t3e: every history of THREE symbolic operations from the empty RIB (next-hop, group, IPv4 entry).
func VfRIB_t3e() {
	vfRIBRun(vfRunCfg{pre: vfPreCfg{}, fixLow: true, steps: 3, members: 1, kinds: []int{vfKNH, vfKNHG, vfKV4}})
}

// qEnum: next-hop operations whose encapsulate-/decapsulate-header fields carry ANY int32 enum
// number (defined or not) against a pre-state with one optional next-hop (defined numbers) and
// one optional group: undefined numbers are malformed content (C12: FAILED / clean error, no
// panic, nothing changes), defined ones are payload (C01: installed value = last acknowledged).
func VfRIB_qEnum() {
	vfRIBRun(vfRunCfg{pre: vfPreCfg{nNH: 1, nNHG: 1, members: 1}, rich: true, fixLow: true, enums: true, steps: 1, members: 1, kinds: []int{vfKNH}})
}

var vfTopQ = []int{vfKV4, vfKMPLS}
var vfTopAll = []int{vfKV4, vfKV6, vfKMPLS}

// q1: installed state only (no held operations): 1 next-hop, 1 group (<=1 member) in the default
// instance, 1 top-level entry (IPv4/MPLS, either instance, optional cross-instance reference);
// one fully symbolic operation.
func VfRIB_q1() {
	vfRIBRun(vfRunCfg{pre: vfPreCfg{nNH: 1, nNHG: 1, nTop: 1, members: 1, topKinds: vfTopQ}, fixLow: true, steps: 1, members: 2})
}

// q2: held operations: 1 next-hop, 1 group, 1 held operation (group or top-level entry, either instance);
// one symbolic ADD/REPLACE/DELETE.
func VfRIB_q2() {
	vfRIBRun(vfRunCfg{pre: vfPreCfg{nNH: 1, nNHG: 1, nHeld: 1, members: 1, topKinds: vfTopQ}, fixLow: true, steps: 1, members: 1})
}

// qPfx: prefix spellings.  The IPv4 / IPv6 tables are keyed by the prefix string exactly as the client sent it:
// one next-hop, one group, one top-level entry (IPv4 or IPv6) whose prefix is one of a few accepted spellings of
// the same and of different prefixes (host bits set, upper-case hex, uncompressed zero group), then one symbolic
// operation over the same lists.
func VfRIB_qPfx() {
	vfRIBRun(vfRunCfg{concPfx: true, pre: vfPreCfg{nNH: 1, nNHG: 1, nTop: 1, members: 1, topKinds: []int{vfKV4, vfKV6}}, fixLow: true, lean: true, steps: 1, members: 1})
}

// qNoFwd: forward references disallowed; installed state as q1 without the top-level entry.
func VfRIB_qNoFwd() {
	vfRIBRun(vfRunCfg{noFwd: true, pre: vfPreCfg{nNH: 1, nNHG: 1, members: 1, topKinds: vfTopQ}, fixLow: true, steps: 1, members: 1})
}

// t1: all slots (1 next-hop, 1 group, 1 top-level entry of any kind, 1 held operation) in EITHER instance,
// both forward-reference modes; one fully symbolic operation with <=2 members.
func VfRIB_t1() {
	vfRIBRun(vfRunCfg{fwdBoth: true, pre: vfPreCfg{nNH: 1, nNHG: 1, nTop: 1, nHeld: 1, members: 1, topKinds: vfTopAll}, fixLow: true, steps: 1, members: 2})
}

// t1r: optional payload fields everywhere (tags, backup groups, metadata, held REPLACE) with the
// lower slots in the default instance; one fully symbolic operation.
func VfRIB_t1r() {
	vfRIBRun(vfRunCfg{pre: vfPreCfg{nNH: 1, nNHG: 1, nTop: 1, members: 1, topKinds: []int{vfKV4}}, rich: true, fixLow: true, steps: 1, members: 1})
}

// t2: TWO consecutive symbolic operations from 1 next-hop + 1 group.
func VfRIB_t2() {
	vfRIBRun(vfRunCfg{pre: vfPreCfg{nNH: 1, nNHG: 1, members: 1, topKinds: []int{vfKV4}}, fixLow: true, steps: 2, members: 1, kinds: []int{vfKNH, vfKNHG, vfKV4}})
}

// tOrder: two held operations (groups or IPv4 entries) and every order of the held-operation walk;
// one symbolic next-hop / group ADD or REPLACE.
func VfRIB_tOrder() {
	vfRIBRun(vfRunCfg{pre: vfPreCfg{nNH: 1, nHeld: 2, members: 1, topKinds: []int{vfKV4}}, fixLow: true, steps: 1, members: 1,
		typLo: 1, typHi: 2, kinds: []int{vfKNH, vfKNHG}, mapOrder: true})
}

// q3: a held REPLACE whose key has been deleted meanwhile (it must fail exactly once when it is
// retried), next to 1 next-hop and 1 group; one symbolic operation.
func VfRIB_q3() {
	vfRIBRun(vfRunCfg{pre: vfPreCfg{nNH: 1, nNHG: 1, nStale: 1, members: 1, topKinds: vfTopQ}, fixLow: true, steps: 1, members: 1})
}

// q3h: the stale held REPLACE of q3 NEXT TO two further held operations (groups waiting for a next-hop - one of
// them possibly the very group the REPLACE waits for - or IPv4 entries), then one symbolic next-hop / group ADD
// that starts a cascade; every iteration order of the held-operation map: the REPLACE fails exactly once, every
// other operation that became resolvable is acknowledged in the same call, nothing resolvable stays held.
func VfRIB_q3h() {
	vfRIBRun(vfRunCfg{pre: vfPreCfg{nNH: 1, nNHG: 1, nStale: 1, nHeld: 2, members: 1, topKinds: []int{vfKV4}}, fixLow: true, lean: true, steps: 1, members: 1,
		typLo: 1, typHi: 1, kinds: []int{vfKNH, vfKNHG}, mapOrder: true})
}

// qW: weighted groups - members carry an optional weight of ANY 64-bit value (0 included): pre-state 1 next-hop,
// 1 group (<=1 member), 1 held operation; one symbolic group ADD/REPLACE/DELETE of <=2 distinct members, with
// forward references allowed or disallowed: a member's weight never changes what "resolvable" means.
func VfRIB_qW() {
	vfRIBRun(vfRunCfg{fwdBoth: true, pre: vfPreCfg{nNH: 1, nNHG: 1, nHeld: 1, heldTopOnly: true, members: 1, topKinds: []int{vfKV4}}, fixLow: true, weights: true, steps: 1, members: 2,
		kinds: []int{vfKNHG}})
}

// qx: cross-instance references: a next-hop and a group in each of the two instances (the same group id may
// exist in both), 1 IPv4 entry in either instance with an optional explicit group instance; one
// symbolic ADD/REPLACE/DELETE of an IPv4 entry (retargeting between instances).
func VfRIB_qx() {
	vfRIBRun(vfRunCfg{pre: vfPreCfg{nNH: 2, nNHG: 2, nTop: 1, members: 1, topKinds: []int{vfKV4}}, splitLow: true, steps: 1, members: 1, kinds: []int{vfKV4}})
}

// qo: acknowledgement order: 1 next-hop and 2 held IPv4 entries (possibly the same key with different
// payloads) waiting for a group; one symbolic next-hop-group ADD/REPLACE that may resolve them;
// every iteration order of the held-operation map.
func VfRIB_qo() {
	vfRIBRun(vfRunCfg{pre: vfPreCfg{nNH: 1, nHeld: 2, heldTopOnly: true, members: 1, topKinds: []int{vfKV4}}, fixLow: true, steps: 1, members: 1,
		typLo: 1, typHi: 2, kinds: []int{vfKNHG}, mapOrder: true})
}

// qx2: held operations across instances: a next-hop in each instance, 1 held operation (group or IPv4
// entry, either instance, optional explicit group instance); one symbolic next-hop / group ADD or
// REPLACE in any instance that may make it resolvable.
func VfRIB_qx2() {
	vfRIBRun(vfRunCfg{pre: vfPreCfg{nNH: 2, nHeld: 1, members: 1, topKinds: []int{vfKV4}}, splitLow: true, steps: 1, members: 1,
		typLo: 1, typHi: 2, kinds: []int{vfKNH, vfKNHG}})
}
