//go:build verif

package rib

// Exported (verif-only) access to the canonical-state builder and the reference
// model for harnesses in other packages (rib/reconciler).

import (
	spb "github.com/openconfig/gribi/v1/proto/service"
)

// VfWorld is a real RIB together with the reference description of its contents.
type VfWorld struct {
	R   *RIB
	ref *vfRef
}

// VfBuild builds a reference-closed RIB (two instances) through the public API with
// symbolic contents; every symbolic input is named prefix+....
func VfBuild(prefix string, nNH, nNHG, nTop, members int, kinds []int, rich bool) *VfWorld {
	r, ref := vfNewPair(true)
	g := &vfGen{pfx: prefix, rich: rich, fixLow: true}
	vfCanonical(r, ref, g, vfPreCfg{nNH: nNH, nNHG: nNHG, nTop: nTop, members: members, topKinds: kinds})
	return &VfWorld{R: r, ref: ref}
}

// VfBuildSplit: cross-instance references with a small concrete skeleton - next-hop 1 in each of the two
// instances, an optional group (symbolic id, member 1) in each instance, and one optional IPv4 entry (symbolic
// prefix and group id) in either instance whose group instance is unset (= its own instance) or explicit.
func VfBuildSplit(prefix string) *VfWorld {
	r, ref := vfNewPair(true)
	g := &vfGen{pfx: prefix}
	must := func(d *vfOpD) { vfAssume(vfSubmit(r, ref, d) == vfStAcked) }
	for _, ni := range []string{"DEFAULT", "VRF-A"} {
		must(&vfOpD{id: g.id(), typ: vfADD, kind: vfKNH, ni: ni, idx: 1, hasBody: true})
	}
	for _, ni := range []string{"DEFAULT", "VRF-A"} {
		if vfBool(prefix + "nhg.live") {
			must(&vfOpD{id: g.id(), typ: vfADD, kind: vfKNHG, ni: ni, idx: vfU64(prefix + "nhg.id"), hasBody: true, members: []vfMember{{idx: 1}}})
		}
	}
	if vfBool(prefix + "top.live") {
		d := &vfOpD{id: g.id(), typ: vfADD, kind: vfKV4, ni: vfKnownNI(prefix + "top"), pfx: vfStrK(prefix+"top.pfx", "prefix4"), hasBody: true,
			hasNHG: true, nhg: vfU64(prefix + "top.nhg")}
		if vfBool(prefix + "top.hasNHGNI") {
			d.hasNHGNI, d.nhgNI = true, vfKnownNI(prefix+"top.nhgNI")
		}
		must(d)
	}
	return &VfWorld{R: r, ref: ref}
}

// VfBuildWeighted: as VfBuild(prefix, 1, 1, 0, 1, ...) with an optional symbolic weight on the group's member.
func VfBuildWeighted(prefix string) *VfWorld {
	r, ref := vfNewPair(true)
	g := &vfGen{pfx: prefix, fixLow: true, weights: true}
	vfCanonical(r, ref, g, vfPreCfg{nNH: 1, nNHG: 1, members: 1})
	return &VfWorld{R: r, ref: ref}
}

// VfBuildBackup: one next-hop and up to two groups (ids 1, 2) in the default instance; group 2 may name group 1 as
// its backup and group 1 may name group 2 (a backup cycle when both do).
func VfBuildBackup(prefix string) *VfWorld {
	r, ref := vfNewPair(true)
	g := &vfGen{pfx: prefix}
	must := func(d *vfOpD) { vfAssume(vfSubmit(r, ref, d) == vfStAcked) }
	must(&vfOpD{id: g.id(), typ: vfADD, kind: vfKNH, ni: "DEFAULT", idx: 1, hasBody: true})
	live1, live2 := vfBool(prefix+"g1.live"), vfBool(prefix+"g2.live")
	if live1 {
		must(&vfOpD{id: g.id(), typ: vfADD, kind: vfKNHG, ni: "DEFAULT", idx: 1, hasBody: true, members: []vfMember{{idx: 1}}})
	}
	if live2 {
		d := &vfOpD{id: g.id(), typ: vfADD, kind: vfKNHG, ni: "DEFAULT", idx: 2, hasBody: true, members: []vfMember{{idx: 1}}}
		if live1 && vfBool(prefix+"g2.backup-is-g1") {
			d.hasBackup, d.backup = true, 1
		}
		must(d)
	}
	if live1 && live2 && vfBool(prefix+"g1.backup-is-g2") {
		must(&vfOpD{id: g.id(), typ: vfADD, kind: vfKNHG, ni: "DEFAULT", idx: 1, hasBody: true, members: []vfMember{{idx: 1}}, hasBackup: true, backup: 2})
	}
	return &VfWorld{R: r, ref: ref}
}

// VfEmpty: an empty RIB with the same instances (the intended state of a tear-down).
func VfEmpty() *VfWorld {
	r, ref := vfNewPair(true)
	return &VfWorld{R: r, ref: ref}
}

// VfKinds: IPv4, IPv6, MPLS top-level kinds.
func VfKinds(v4, v6, mpls bool) []int {
	var k []int
	if v4 {
		k = append(k, vfKV4)
	}
	if v6 {
		k = append(k, vfKV6)
	}
	if mpls {
		k = append(k, vfKMPLS)
	}
	return k
}

// VfLockProbe: after the operations under test no lock of the RIB may be left held (an operation that
// returned while holding a table lock wedges the instance for every later writer).  The probe takes and
// releases every lock: in the engine a leaked lock makes it block forever (deadlock outcome), natively the
// replay's watchdog fires.
func (r *RIB) VfLockProbe() {
	r.nrMu.Lock()
	r.nrMu.Unlock()
	r.pendMu.Lock()
	r.pendMu.Unlock()
	for _, name := range []string{"DEFAULT", "VRF-A"} {
		if h := r.niRIB[name]; h != nil {
			h.mu.Lock()
			h.mu.Unlock()
			if h.refCounts != nil {
				h.refCounts.mu.Lock()
				h.refCounts.mu.Unlock()
			}
		}
	}
	vfReach("locks-free")
}

// Apply sends one operation to the real RIB and reports whether it was acknowledged as programmed.
func (w *VfWorld) Apply(op *spb.AFTOperation) bool {
	var oks []*OpResult
	var err error
	if op.GetOp() == spb.AFTOperation_DELETE {
		oks, _, err = w.R.DeleteEntry(op.GetNetworkInstance(), op)
	} else {
		oks, _, err = w.R.AddEntry(op.GetNetworkInstance(), op)
	}
	if err != nil {
		return false
	}
	for _, o := range oks {
		if o.ID == op.GetId() {
			return true
		}
	}
	return false
}

// TablesEqual asserts (labels prefixed with p) that the tables of real equal this world's reference contents.
func (w *VfWorld) TablesEqual(real *RIB, p string) { w.ref.compareP(real, p, true) }

// AddInstance creates an additional (empty) network instance in the real RIB and the reference.
func (w *VfWorld) AddInstance(name string) {
	if err := w.R.AddNetworkInstance(name); err != nil {
		panic(err)
	}
	w.ref.names = append(w.ref.names, name)
	w.ref.ni[name] = &vfRefNI{v4: map[string]*vfRefTop{}, v6: map[string]*vfRefTop{}, mpls: map[uint64]*vfRefTop{}, nhg: map[uint64]*vfRefNHG{}, nh: map[uint64]*vfRefNH{}}
}

// Read-only snapshots for harnesses in other packages (build tag verif only).

// VfPendingIDs returns the ids of the held (pending) operations.
func (r *RIB) VfPendingIDs() []uint64 {
	r.pendMu.RLock()
	defer r.pendMu.RUnlock()
	var ids []uint64
	for id := range r.pendingEntries {
		ids = append(ids, id)
	}
	return ids
}

// VfRefCounts returns a copy of the reference counters per network instance
// ("nhg"/"nh" -> id -> count), zero entries omitted.
func (r *RIB) VfRefCounts() map[string]map[string]map[uint64]uint64 {
	out := map[string]map[string]map[uint64]uint64{}
	r.nrMu.RLock()
	defer r.nrMu.RUnlock()
	for name, h := range r.niRIB {
		h.refCounts.mu.RLock()
		m := map[string]map[uint64]uint64{"nhg": {}, "nh": {}}
		for k, v := range h.refCounts.NextHopGroup {
			if v != 0 {
				m["nhg"][k] = v
			}
		}
		for k, v := range h.refCounts.NextHop {
			if v != 0 {
				m["nh"][k] = v
			}
		}
		h.refCounts.mu.RUnlock()
		out[name] = m
	}
	return out
}
