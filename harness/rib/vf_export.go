//go:build verif

package rib

// Read-only snapshots for harnesses in other packages (build tag verif only).

// VfPendingIDs returns the ids of the held (pending) operations.
func (r *RIB) VfPendingIDs() []uint64 {
	r.pendMu.RLock()
	defer r.pendMu.RUnlock()
	var ids []uint64
	for id := range r.pendingEntries {
		ids = append(ids, id)
	}
	return ids
}
