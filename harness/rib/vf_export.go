//go:build verif

package rib

// Read-only snapshots for harnesses in other packages (build tag verif only).

// VfPendingIDs returns the ids of the held (pending) operations.
func (r *RIB) VfPendingIDs() []uint64 {
	r.pendMu.RLock()
	defer r.pendMu.RUnlock()
	var ids []uint64
	for id := range r.pendingEntries {
		ids = append(ids, id)
	}
	return ids
}

// VfRefCounts returns a copy of the reference counters per network instance
// ("nhg"/"nh" -> id -> count), zero entries omitted.
func (r *RIB) VfRefCounts() map[string]map[string]map[uint64]uint64 {
	out := map[string]map[string]map[uint64]uint64{}
	r.nrMu.RLock()
	defer r.nrMu.RUnlock()
	for name, h := range r.niRIB {
		h.refCounts.mu.RLock()
		m := map[string]map[uint64]uint64{"nhg": {}, "nh": {}}
		for k, v := range h.refCounts.NextHopGroup {
			if v != 0 {
				m["nhg"][k] = v
			}
		}
		for k, v := range h.refCounts.NextHop {
			if v != 0 {
				m["nh"][k] = v
			}
		}
		h.refCounts.mu.RUnlock()
		out[name] = m
	}
	return out
}
