//go:build verif

package rib

// Reference RIB ("oracle") used by the C01/C02/C03/C08/C12/C16 harnesses.
//
// It is not a simulator: given the real implementation's answer to one call
// (oks in acknowledgement order, fails, error) it CHECKS that answer against
// the specification of the properties, applies the acknowledged operations in
// acknowledgement order to its own state (plain maps, referrers found by
// scanning - no counters) and compares that state with the real tables.

import (
	"github.com/openconfig/gribigo/aft"

	aftpb "github.com/openconfig/gribi/v1/proto/gribi_aft"
	enums "github.com/openconfig/gribi/v1/proto/gribi_aft/enums"
	spb "github.com/openconfig/gribi/v1/proto/service"
	wpb "github.com/openconfig/ygot/proto/ywrapper"
)

const (
	vfKV4 = iota
	vfKV6
	vfKMPLS
	vfKNHG
	vfKNH
)

const (
	vfADD     = 1
	vfREPLACE = 2
	vfDELETE  = 3
)

type vfMember struct {
	idx  uint64
	hasW bool
	w    uint64
}

// vfOpD describes one AFT operation by value (the modelled fields).
type vfOpD struct {
	id   uint64
	typ  int // vfADD / vfREPLACE / vfDELETE
	ni   string
	kind int

	pfx   string // v4, v6
	label uint64 // mpls (64-bit, as on the wire)
	idx   uint64 // nhg id / nh index

	hasBody bool // inner message present

	hasNHG   bool
	nhg      uint64
	hasNHGNI bool
	nhgNI    string
	hasMD    bool
	md       uint8

	members   []vfMember
	hasBackup bool
	backup    uint64
	hasColor  bool
	color     uint64

	hasTag bool
	tag    string
	hasPop bool
	pop    bool
	// encapsulate-header / decapsulate-header enum numbers of a next-hop as on the wire (0 = unset; any int32)
	encap, decap int32
	// extended payload (nil: none): addresses, MAC, interface reference, IP-in-IP, pushed label stack of a
	// next-hop; decapsulate-header of an IPv4/IPv6 entry; popped label stack of a label entry
	x *vfPayloadX
}

// vfPayloadX: the extended payload fields, as on the wire.
type vfPayloadX struct {
	hasIP          bool
	ip             string
	hasMAC         bool
	mac            string
	hasIf          bool
	ifname         string
	hasSub         bool
	sub            uint64
	hasSrc, hasDst bool
	src, dst       string
	stack          []uint64 // pushed (next-hop) / popped (label entry) labels, in order
	topDecap       int32    // IPv4 / IPv6 entry decapsulate-header (defined numbers only)
	eh             []vfEncapD // encap headers of a next-hop (distinct concrete indices)
}

// vfEncapD: one encapsulation header as on the wire: MPLS (label stack, traffic class) or UDPv6.
type vfEncapD struct {
	idx    uint64 // concrete
	typ    int32  // defined type number
	labels []uint64
	hasTC  bool
	tc     uint64
	hasDSCP, hasDPort, hasSPort, hasTTL bool
	dscp, dport, sport, ttl             uint64
	hasSIP, hasDIP                      bool
	sip, dip                            string
}

func (h *vfEncapD) isUDP() bool { return h.hasDSCP || h.hasDPort || h.hasSPort || h.hasTTL || h.hasSIP || h.hasDIP }

// invalid: the schema rejects the payload.
func (x *vfPayloadX) invalid() bool {
	if x == nil {
		return false
	}
	bad := false
	if x.hasIP {
		bad = vfOr(bad, !vfValidIP(x.ip))
	}
	if x.hasMAC {
		bad = vfOr(bad, !vfValidMAC(x.mac))
	}
	if x.hasSub {
		bad = vfOr(bad, x.sub > 0xffffffff)
	}
	if x.hasSrc {
		bad = vfOr(bad, !vfValidIP(x.src))
	}
	if x.hasDst {
		bad = vfOr(bad, !vfValidIP(x.dst))
	}
	for _, l := range x.stack {
		bad = vfOr(bad, !vfValidLabel(l))
	}
	for i := range x.eh {
		h := &x.eh[i]
		for _, l := range h.labels {
			bad = vfOr(bad, !vfValidLabel(l))
		}
		if h.hasTC {
			bad = vfOr(bad, h.tc > 7)
		}
		if h.hasDSCP {
			bad = vfOr(bad, h.dscp > 63)
		}
		if h.hasDPort {
			bad = vfOr(bad, h.dport > 0xffff)
		}
		if h.hasSPort {
			bad = vfOr(bad, h.sport > 0xffff)
		}
		if h.hasTTL {
			bad = vfOr(bad, h.ttl > 0xff)
		}
		if h.hasSIP {
			bad = vfOr(bad, !vfValidIP(h.sip))
		}
		if h.hasDIP {
			bad = vfOr(bad, !vfValidIP(h.dip))
		}
	}
	return bad
}

func (d *vfOpD) proto() *spb.AFTOperation {
	op := &spb.AFTOperation{Id: d.id, NetworkInstance: d.ni}
	switch d.typ {
	case vfADD:
		op.Op = spb.AFTOperation_ADD
	case vfREPLACE:
		op.Op = spb.AFTOperation_REPLACE
	case vfDELETE:
		op.Op = spb.AFTOperation_DELETE
	}
	u := func(has bool, v uint64) *wpb.UintValue {
		if !has {
			return nil
		}
		return &wpb.UintValue{Value: v}
	}
	s := func(has bool, v string) *wpb.StringValue {
		if !has {
			return nil
		}
		return &wpb.StringValue{Value: v}
	}
	md := func() *wpb.BytesValue {
		if !d.hasMD {
			return nil
		}
		return &wpb.BytesValue{Value: []byte{d.md, 0, 0, 0, 0, 0, 0, 0}}
	}
	switch d.kind {
	case vfKV4:
		k := &aftpb.Afts_Ipv4EntryKey{Prefix: d.pfx}
		if d.hasBody {
			k.Ipv4Entry = &aftpb.Afts_Ipv4Entry{NextHopGroup: u(d.hasNHG, d.nhg), NextHopGroupNetworkInstance: s(d.hasNHGNI, d.nhgNI), EntryMetadata: md()}
			if d.x != nil {
				k.Ipv4Entry.DecapsulateHeader = enums.OpenconfigAftTypesEncapsulationHeaderType(d.x.topDecap)
			}
		}
		op.Entry = &spb.AFTOperation_Ipv4{Ipv4: k}
	case vfKV6:
		k := &aftpb.Afts_Ipv6EntryKey{Prefix: d.pfx}
		if d.hasBody {
			k.Ipv6Entry = &aftpb.Afts_Ipv6Entry{NextHopGroup: u(d.hasNHG, d.nhg), NextHopGroupNetworkInstance: s(d.hasNHGNI, d.nhgNI), EntryMetadata: md()}
			if d.x != nil {
				k.Ipv6Entry.DecapsulateHeader = enums.OpenconfigAftTypesEncapsulationHeaderType(d.x.topDecap)
			}
		}
		op.Entry = &spb.AFTOperation_Ipv6{Ipv6: k}
	case vfKMPLS:
		k := &aftpb.Afts_LabelEntryKey{Label: &aftpb.Afts_LabelEntryKey_LabelUint64{LabelUint64: d.label}}
		if d.hasBody {
			k.LabelEntry = &aftpb.Afts_LabelEntry{NextHopGroup: u(d.hasNHG, d.nhg), NextHopGroupNetworkInstance: s(d.hasNHGNI, d.nhgNI), EntryMetadata: md()}
			if d.x != nil {
				for _, l := range d.x.stack {
					k.LabelEntry.PoppedMplsLabelStack = append(k.LabelEntry.PoppedMplsLabelStack, &aftpb.Afts_LabelEntry_PoppedMplsLabelStackUnion{PoppedMplsLabelStackUint64: l})
				}
			}
		}
		op.Entry = &spb.AFTOperation_Mpls{Mpls: k}
	case vfKNHG:
		k := &aftpb.Afts_NextHopGroupKey{Id: d.idx}
		if d.hasBody {
			g := &aftpb.Afts_NextHopGroup{BackupNextHopGroup: u(d.hasBackup, d.backup), Color: u(d.hasColor, d.color)}
			for _, m := range d.members {
				g.NextHop = append(g.NextHop, &aftpb.Afts_NextHopGroup_NextHopKey{Index: m.idx,
					NextHop: &aftpb.Afts_NextHopGroup_NextHop{Weight: u(m.hasW, m.w)}})
			}
			k.NextHopGroup = g
		}
		op.Entry = &spb.AFTOperation_NextHopGroup{NextHopGroup: k}
	case vfKNH:
		k := &aftpb.Afts_NextHopKey{Index: d.idx}
		if d.hasBody {
			k.NextHop = &aftpb.Afts_NextHop{NetworkInstance: s(d.hasTag, d.tag)}
			if d.hasPop {
				k.NextHop.PopTopLabel = &wpb.BoolValue{Value: d.pop}
			}
			k.NextHop.EncapsulateHeader = enums.OpenconfigAftTypesEncapsulationHeaderType(d.encap)
			k.NextHop.DecapsulateHeader = enums.OpenconfigAftTypesEncapsulationHeaderType(d.decap)
			if x := d.x; x != nil {
				k.NextHop.IpAddress = s(x.hasIP, x.ip)
				k.NextHop.MacAddress = s(x.hasMAC, x.mac)
				if x.hasIf || x.hasSub {
					k.NextHop.InterfaceRef = &aftpb.Afts_NextHop_InterfaceRef{Interface: s(x.hasIf, x.ifname), Subinterface: u(x.hasSub, x.sub)}
				}
				if x.hasSrc || x.hasDst {
					k.NextHop.IpInIp = &aftpb.Afts_NextHop_IpInIp{SrcIp: s(x.hasSrc, x.src), DstIp: s(x.hasDst, x.dst)}
				}
				for _, l := range x.stack {
					k.NextHop.PushedMplsLabelStack = append(k.NextHop.PushedMplsLabelStack, &aftpb.Afts_NextHop_PushedMplsLabelStackUnion{PushedMplsLabelStackUint64: l})
				}
				for i := range x.eh {
					h := &x.eh[i]
					ph := &aftpb.Afts_NextHop_EncapHeader{Type: enums.OpenconfigAftTypesEncapsulationHeaderType(h.typ)}
					if len(h.labels) != 0 || h.hasTC {
						ph.Mpls = &aftpb.Afts_NextHop_EncapHeader_Mpls{TrafficClass: u(h.hasTC, h.tc)}
						for _, l := range h.labels {
							ph.Mpls.MplsLabelStack = append(ph.Mpls.MplsLabelStack, &aftpb.Afts_NextHop_EncapHeader_Mpls_MplsLabelStackUnion{MplsLabelStackUint64: l})
						}
					}
					if h.isUDP() {
						ph.UdpV6 = &aftpb.Afts_NextHop_EncapHeader_UdpV6{Dscp: u(h.hasDSCP, h.dscp), DstUdpPort: u(h.hasDPort, h.dport), SrcUdpPort: u(h.hasSPort, h.sport),
							IpTtl: u(h.hasTTL, h.ttl), SrcIp: s(h.hasSIP, h.sip), DstIp: s(h.hasDIP, h.dip)}
					}
					k.NextHop.EncapHeader = append(k.NextHop.EncapHeader, &aftpb.Afts_NextHop_EncapHeaderKey{Index: h.idx, EncapHeader: ph})
				}
			}
		}
		op.Entry = &spb.AFTOperation_NextHop{NextHop: k}
	}
	return op
}

// ---- reference state ----

type vfRefTop struct {
	hasNHG   bool
	nhg      uint64
	hasNHGNI bool
	nhgNI    string
	hasMD    bool
	md       uint8
	x        *vfPayloadX
}

type vfRefNHG struct {
	members   map[uint64]vfMember
	hasBackup bool
	backup    uint64
	hasColor  bool
	color     uint64
}

type vfRefNH struct {
	hasTag bool
	tag    string
	hasPop bool
	pop    bool
	encap  int32
	decap  int32
	x      *vfPayloadX
}

type vfRefNI struct {
	v4   map[string]*vfRefTop
	v6   map[string]*vfRefTop
	mpls map[uint64]*vfRefTop // keyed by the full 64-bit label
	nhg  map[uint64]*vfRefNHG
	nh   map[uint64]*vfRefNH
}

type vfRef struct {
	def    string
	names  []string
	ni     map[string]*vfRefNI
	held   map[uint64]*vfOpD
	fwdRef bool
}

func vfNewRef(def string, fwd bool, vrfs ...string) *vfRef {
	r := &vfRef{def: def, ni: map[string]*vfRefNI{}, held: map[uint64]*vfOpD{}, fwdRef: fwd}
	for _, n := range append([]string{def}, vrfs...) {
		r.names = append(r.names, n)
		r.ni[n] = &vfRefNI{v4: map[string]*vfRefTop{}, v6: map[string]*vfRefTop{}, mpls: map[uint64]*vfRefTop{},
			nhg: map[uint64]*vfRefNHG{}, nh: map[uint64]*vfRefNH{}}
	}
	return r
}

func (r *vfRef) known(ni string) bool { _, ok := r.ni[ni]; return ok }

// targetNI: the instance in which a top-level entry's group is looked up.
func (d *vfOpD) targetNI() string {
	return vfIteStr(vfAnd(d.hasNHGNI, d.nhgNI != ""), d.nhgNI, d.ni)
}

func (t *vfRefTop) targetNI(own string) string {
	return vfIteStr(vfAnd(t.hasNHGNI, t.nhgNI != ""), t.nhgNI, own)
}

// invalid: the operation can never be installed (C12's notion of malformed, as
// far as the modelled fields go).
func (r *vfRef) invalid(d *vfOpD) bool {
	if !r.known(d.ni) {
		return true
	}
	if !d.hasBody {
		return true
	}
	switch d.kind {
	case vfKV4:
		if !vfValidPrefix4(d.pfx) {
			return true
		}
	case vfKV6:
		if !vfValidPrefix6(d.pfx) {
			return true
		}
	case vfKMPLS:
		if d.label < 16 || d.label > 1048575 {
			return true
		}
		if d.x.invalid() {
			return true
		}
	case vfKNHG:
		if d.idx == 0 || len(d.members) == 0 {
			return true
		}
		for _, m := range d.members {
			if m.idx == 0 {
				return true
			}
		}
		return false
	case vfKNH:
		// an enum number its type does not define is invalid content
		return vfOr(vfOr(d.idx == 0, d.x.invalid()), vfOr(!vfEncapDefined(d.encap), !vfEncapDefined(d.decap)))
	}
	// top-level entries
	if !d.hasNHG || d.nhg == 0 {
		return true
	}
	if d.hasNHGNI && d.nhgNI != "" && !r.known(d.nhgNI) {
		return true
	}
	return false
}

// resolvable: everything the (valid) operation references is installed.
func (r *vfRef) resolvable(d *vfOpD) bool {
	switch d.kind {
	case vfKNH:
		return true
	case vfKNHG:
		n := r.ni[d.ni]
		for _, m := range d.members {
			if _, ok := n.nh[m.idx]; !ok {
				return false
			}
		}
		return true
	}
	n := r.ni[d.targetNI()]
	_, ok := n.nhg[d.nhg]
	return ok
}

func (r *vfRef) exists(d *vfOpD) bool {
	n := r.ni[d.ni]
	if n == nil {
		return false
	}
	switch d.kind {
	case vfKV4:
		_, ok := n.v4[d.pfx]
		return ok
	case vfKV6:
		_, ok := n.v6[d.pfx]
		return ok
	case vfKMPLS:
		_, ok := n.mpls[d.label]
		return ok
	case vfKNHG:
		_, ok := n.nhg[d.idx]
		return ok
	}
	_, ok := n.nh[d.idx]
	return ok
}

// nhgReferrers counts installed top-level entries (any table, any instance)
// pointing at group g of instance ni.
func (r *vfRef) nhgReferrers(ni string, g uint64) uint64 {
	var c uint64
	for _, own := range r.names {
		n := r.ni[own]
		for _, t := range n.v4 {
			c += vfB2I(vfAnd(vfAnd(t.hasNHG, t.nhg == g), t.targetNI(own) == ni))
		}
		for _, t := range n.v6 {
			c += vfB2I(vfAnd(vfAnd(t.hasNHG, t.nhg == g), t.targetNI(own) == ni))
		}
		for _, t := range n.mpls {
			c += vfB2I(vfAnd(vfAnd(t.hasNHG, t.nhg == g), t.targetNI(own) == ni))
		}
	}
	return c
}

// nhReferrers counts installed groups of ni containing next-hop x.
func (r *vfRef) nhReferrers(ni string, x uint64) uint64 {
	var c uint64
	for _, g := range r.ni[ni].nhg {
		if _, ok := g.members[x]; ok {
			c++
		}
	}
	return c
}

func (d *vfOpD) top() *vfRefTop {
	return &vfRefTop{hasNHG: d.hasNHG, nhg: d.nhg, hasNHGNI: d.hasNHGNI, nhgNI: d.nhgNI, hasMD: d.hasMD, md: d.md, x: d.x}
}

// apply folds one acknowledged operation into the reference state.
func (r *vfRef) apply(d *vfOpD) {
	n := r.ni[d.ni]
	if n == nil {
		return
	}
	if d.typ == vfDELETE {
		switch d.kind {
		case vfKV4:
			delete(n.v4, d.pfx)
		case vfKV6:
			delete(n.v6, d.pfx)
		case vfKMPLS:
			delete(n.mpls, d.label)
		case vfKNHG:
			delete(n.nhg, d.idx)
		case vfKNH:
			delete(n.nh, d.idx)
		}
		return
	}
	switch d.kind {
	case vfKV4:
		n.v4[d.pfx] = d.top()
	case vfKV6:
		n.v6[d.pfx] = d.top()
	case vfKMPLS:
		n.mpls[d.label] = d.top()
	case vfKNHG:
		g := &vfRefNHG{members: map[uint64]vfMember{}, hasBackup: d.hasBackup, backup: d.backup, hasColor: d.hasColor, color: d.color}
		for _, m := range d.members {
			g.members[m.idx] = m
		}
		n.nhg[d.idx] = g
	case vfKNH:
		n.nh[d.idx] = &vfRefNH{hasTag: d.hasTag, tag: d.tag, hasPop: d.hasPop, pop: d.pop, encap: d.encap, decap: d.decap, x: d.x}
	}
}

// ---- checking one call of the real RIB ----

type vfAnswer struct {
	oks, fails []uint64
	err        error
}

func vfIDs(rs []*OpResult) []uint64 {
	var out []uint64
	for _, x := range rs {
		out = append(out, x.ID)
	}
	return out
}

// legitFail: may operation d legitimately be answered FAILED in the current reference state?
func (r *vfRef) legitFail(d *vfOpD) bool {
	if d.typ == vfDELETE {
		if !r.known(d.ni) {
			return true
		}
		switch d.kind {
		case vfKNHG:
			return d.idx == 0 || (r.exists(d) && r.nhgReferrers(d.ni, d.idx) > 0)
		case vfKNH:
			return d.idx == 0 || (r.exists(d) && r.nhReferrers(d.ni, d.idx) > 0)
		case vfKMPLS:
			// a key that cannot exist may be rejected (C12) or treated as an absent key (C01): both are accepted
			return d.label < 16 || d.label > 1048575
		case vfKV4:
			return !vfValidPrefix4(d.pfx)
		case vfKV6:
			return !vfValidPrefix6(d.pfx)
		}
		return false
	}
	if r.invalid(d) {
		return true
	}
	if d.typ == vfREPLACE && !r.exists(d) {
		return true
	}
	return !r.fwdRef && !r.resolvable(d)
}

// legitOK: may d be acknowledged as programmed in the current reference state?
func (r *vfRef) legitOK(d *vfOpD) bool {
	if d.typ == vfDELETE {
		if !r.known(d.ni) {
			return false
		}
		switch d.kind {
		case vfKNHG:
			return d.idx != 0 && !(r.exists(d) && r.nhgReferrers(d.ni, d.idx) > 0)
		case vfKNH:
			return d.idx != 0 && !(r.exists(d) && r.nhReferrers(d.ni, d.idx) > 0)
		}
		return true
	}
	if r.invalid(d) {
		return false
	}
	if d.typ == vfREPLACE && !r.exists(d) {
		return false
	}
	return r.resolvable(d)
}

// check validates the real answer to submitting d, and advances the reference state.
// pfx is the label prefix ("C01", ...) used in assertion names.
func (r *vfRef) check(d *vfOpD, a vfAnswer) {
	if a.err != nil {
		// a clean RPC-level error: nothing may have been acknowledged
		vfAssert(len(a.oks) == 0 && len(a.fails) == 0, "C12:error-return-carries-no-results")
		vfAssert(r.legitFail(d), "C12:rpc-error-only-for-operations-that-may-fail")
		return
	}
	lookup := func(id uint64) *vfOpD {
		if id == d.id {
			return d
		}
		return r.held[id]
	}
	// failures are judged against some state between the pre-state and the post-state;
	// the submitted operation itself is judged against the pre-state.
	failedSelf := false
	var failedHeld []uint64
	for _, id := range a.fails {
		x := lookup(id)
		vfAssert(x != nil, "C06:failed-id-was-submitted-or-held")
		if x == nil {
			continue
		}
		if id == d.id {
			vfAssert(!failedSelf, "C06:operation-failed-at-most-once-per-call")
			failedSelf = true
			if d.typ == vfDELETE {
				vfAssert(r.legitFail(d), "C03:delete-failed-only-if-referenced-or-malformed")
			} else {
				vfAssert(r.legitFail(d), "C01:failed-only-if-specified-to-fail")
			}
		} else {
			failedHeld = append(failedHeld, id)
		}
	}
	// a held operation that failed is judged against EVERY state the call went through (the pre-state and the
	// state after each acknowledgement): e.g. a held REPLACE fails legitimately while its key is absent even if
	// another held operation re-creates the key later in the same cascade
	legitAtSomePoint := map[uint64]bool{}
	noteFailedHeld := func() {
		for _, id := range failedHeld {
			if x := r.held[id]; x != nil {
				legitAtSomePoint[id] = vfOr(legitAtSomePoint[id], r.legitFail(x))
			}
		}
	}
	noteFailedHeld()
	seen := map[uint64]bool{}
	for _, id := range a.oks {
		x := lookup(id)
		vfAssert(x != nil, "C06:acked-id-was-submitted-or-held")
		if x == nil {
			continue
		}
		vfAssert(!seen[id], "C06:operation-acked-at-most-once-per-call")
		seen[id] = true
		if id == d.id {
			vfAssert(!failedSelf, "C06:not-both-failed-and-programmed")
			vfAssert(r.known(d.ni), "C12:acknowledged-only-in-a-known-network-instance")
		}
		if x.typ == vfDELETE {
			vfAssert(r.legitOK(x), "C03:delete-acked-only-if-unreferenced")
		} else {
			vfAssert(r.legitOK(x), "C02:acked-only-when-valid-and-resolvable")
		}
		if x.typ == vfREPLACE {
			// the fold of C01 defines REPLACE only on an existing entry: an acknowledged REPLACE never creates one
			vfAssert(r.exists(x), "C01:replace-acknowledged-only-for-an-existing-entry")
		}
		r.apply(x)
		delete(r.held, id)
		noteFailedHeld()
	}
	for _, id := range failedHeld {
		x := r.held[id]
		if x == nil {
			continue
		}
		// a held operation may fail once the state makes it unfulfillable (e.g. REPLACE of a key since deleted)
		vfAssert(legitAtSomePoint[id], "C02:held-operation-failed-only-if-unfulfillable")
		delete(r.held, id)
	}
	if !failedSelf && !seen[d.id] {
		// neither acknowledged nor failed: must be legitimately held
		vfAssert(d.typ != vfDELETE, "C03:delete-always-answered")
		vfAssert(r.fwdRef, "C02:held-only-when-forward-references-allowed")
		vfAssert(!r.invalid(d), "C12:invalid-operation-not-held")
		r.held[d.id] = d
	}
}

func vfEqU64p(p *uint64, has bool, v uint64) bool {
	if p == nil {
		return !has
	}
	return vfAnd(has, *p == v)
}

func vfEqStrp(p *string, has bool, v string) bool {
	if p == nil {
		return !has
	}
	return vfAnd(has, *p == v)
}

func vfEqMD(b aft.Binary, has bool, v uint8) bool {
	if b == nil {
		return !has
	}
	if !has || len(b) != 8 {
		return false
	}
	return b[0] == v
}

// compare checks that the real RIB's tables, reference counters and held set
// equal the reference state (C01 A1, C03 I2, C02 B2).
func (r *vfRef) compare(real *RIB) { r.compareP(real, "C01:", false) }

// compareP: as compare, with the table assertions labelled p+...; tablesOnly skips counters and held set.
func (r *vfRef) compareP(real *RIB, p string, tablesOnly bool) {
	for _, name := range r.names {
		n := r.ni[name]
		h := real.niRIB[name]
		vfAssert(h != nil, p+"instance-exists")
		if h == nil {
			continue
		}
		a := h.r.Afts
		vfAssert(len(a.Ipv4Entry) == len(n.v4), p+"ipv4-table-size-equals-fold")
		for k, t := range n.v4 {
			e := a.Ipv4Entry[k]
			vfAssert(e != nil, p+"acked-ipv4-entry-installed")
			if e == nil {
				continue
			}
			vfAssert(e.Prefix != nil && *e.Prefix == k, p+"ipv4-key-consistent")
			vfAssert(vfAnd(vfEqU64p(e.NextHopGroup, t.hasNHG, t.nhg), vfAnd(vfEqStrp(e.NextHopGroupNetworkInstance, t.hasNHGNI, t.nhgNI), vfEqMD(e.EntryMetadata, t.hasMD, t.md))), p+"ipv4-payload-equals-last-acked")
			vfAssert(int64(e.DecapsulateHeader) == int64(t.decap()), p+"ipv4-decapsulate-header-equals-last-acked")
		}
		vfAssert(len(a.Ipv6Entry) == len(n.v6), p+"ipv6-table-size-equals-fold")
		for k, t := range n.v6 {
			e := a.Ipv6Entry[k]
			vfAssert(e != nil, p+"acked-ipv6-entry-installed")
			if e == nil {
				continue
			}
			vfAssert(e.Prefix != nil && *e.Prefix == k, p+"ipv6-key-consistent")
			vfAssert(vfAnd(vfEqU64p(e.NextHopGroup, t.hasNHG, t.nhg), vfAnd(vfEqStrp(e.NextHopGroupNetworkInstance, t.hasNHGNI, t.nhgNI), vfEqMD(e.EntryMetadata, t.hasMD, t.md))), p+"ipv6-payload-equals-last-acked")
			vfAssert(int64(e.DecapsulateHeader) == int64(t.decap()), p+"ipv6-decapsulate-header-equals-last-acked")
		}
		vfAssert(len(a.LabelEntry) == len(n.mpls), p+"mpls-table-size-equals-fold")
		for k, t := range n.mpls {
			e := a.LabelEntry[aft.UnionUint32(uint32(k))]
			vfAssert(e != nil, p+"acked-mpls-entry-installed")
			if e == nil {
				continue
			}
			vfAssert(e.Label == aft.UnionUint32(uint32(k)), p+"mpls-key-consistent")
			vfAssert(vfAnd(vfEqU64p(e.NextHopGroup, t.hasNHG, t.nhg), vfAnd(vfEqStrp(e.NextHopGroupNetworkInstance, t.hasNHGNI, t.nhgNI), vfEqMD(e.EntryMetadata, t.hasMD, t.md))), p+"mpls-payload-equals-last-acked")
			vfAssert(vfEqPopped(e.PoppedMplsLabelStack, t.stack()), p+"mpls-popped-label-stack-equals-last-acked")
		}
		vfAssert(len(a.NextHopGroup) == len(n.nhg), p+"nhg-table-size-equals-fold")
		for k, g := range n.nhg {
			e := a.NextHopGroup[k]
			vfAssert(e != nil, p+"acked-nhg-installed")
			if e == nil {
				continue
			}
			vfAssert(e.Id != nil && *e.Id == k, p+"nhg-key-consistent")
			vfAssert(vfAnd(vfEqU64p(e.BackupNextHopGroup, g.hasBackup, g.backup), vfEqU64p(e.Color, g.hasColor, g.color)), p+"nhg-payload-equals-last-acked")
			vfAssert(len(e.NextHop) == len(g.members), p+"nhg-member-count-equals-last-acked")
			for mk, m := range g.members {
				me := e.NextHop[mk]
				vfAssert(me != nil, p+"nhg-member-present")
				if me != nil {
					vfAssert(vfEqU64p(me.Weight, m.hasW, m.w), p+"nhg-member-weight")
				}
			}
		}
		vfAssert(len(a.NextHop) == len(n.nh), p+"nh-table-size-equals-fold")
		for k, x := range n.nh {
			e := a.NextHop[k]
			vfAssert(e != nil, p+"acked-nh-installed")
			if e == nil {
				continue
			}
			vfAssert(e.Index != nil && *e.Index == k, p+"nh-key-consistent")
			vfAssert(vfEqStrp(e.NetworkInstance, x.hasTag, x.tag), p+"nh-payload-equals-last-acked")
			if e.PopTopLabel == nil {
				vfAssert(!x.hasPop, p+"nh-pop-top-label-equals-last-acked")
			} else {
				vfAssert(vfAnd(x.hasPop, *e.PopTopLabel == x.pop), p+"nh-pop-top-label-equals-last-acked")
			}
			vfAssert(vfAnd(int64(e.EncapsulateHeader) == int64(x.encap), int64(e.DecapsulateHeader) == int64(x.decap)), p+"nh-encapsulation-headers-equal-last-acked")
			vfAssert(vfEqNHX(e, x.x), p+"nh-extended-payload-equals-last-acked")
		}
		if tablesOnly {
			continue
		}
		// C03 I2: deletion protection = referrers found by scanning the installed entries
		for id, c := range h.refCounts.NextHopGroup {
			vfAssert(c == r.nhgReferrers(name, id), "C03:nhg-refcount-equals-installed-referrers")
		}
		for id := range n.nhg {
			vfAssert(h.refCounts.NextHopGroup[id] == r.nhgReferrers(name, id), "C03:installed-nhg-refcount-equals-referrers")
		}
		for id, c := range h.refCounts.NextHop {
			vfAssert(c == r.nhReferrers(name, id), "C03:nh-refcount-equals-installed-referrers")
		}
		for id := range n.nh {
			vfAssert(h.refCounts.NextHop[id] == r.nhReferrers(name, id), "C03:installed-nh-refcount-equals-referrers")
		}
	}
	if tablesOnly {
		return
	}
	// held set
	vfAssert(len(real.pendingEntries) == len(r.held), "C06:held-set-equals-unanswered-operations")
	for id, x := range r.held {
		_, ok := real.pendingEntries[id]
		vfAssert(ok, "C02:held-operation-kept")
		vfAssert(!r.legitOK(x), "C02:no-held-operation-is-resolvable")
	}
}

// flush empties the named instances of the reference state (held operations are not touched).
func (r *vfRef) flush(nis []string) {
	for _, name := range nis {
		n := r.ni[name]
		if n == nil {
			continue
		}
		n.v4 = map[string]*vfRefTop{}
		n.v6 = map[string]*vfRefTop{}
		n.mpls = map[uint64]*vfRefTop{}
		n.nhg = map[uint64]*vfRefNHG{}
		n.nh = map[uint64]*vfRefNH{}
	}
}

// ---- extended payload comparison (ygot structs of the tables / protos of Get) ----

var vfNoX = &vfPayloadX{}

func vfEqU32p(p *uint32, has bool, v uint64) bool {
	if p == nil {
		return !has
	}
	return vfAnd(has, uint64(*p) == v)
}

// vfEqNHX: the installed next-hop carries exactly the extended payload x.
func vfEqNHX(e *aft.Afts_NextHop, x *vfPayloadX) bool {
	if x == nil {
		x = vfNoX
	}
	ok := vfAnd(vfEqStrp(e.IpAddress, x.hasIP, x.ip), vfEqStrp(e.MacAddress, x.hasMAC, x.mac))
	if e.InterfaceRef == nil {
		ok = vfAnd(ok, !x.hasIf && !x.hasSub)
	} else {
		ok = vfAnd(ok, vfAnd(vfEqStrp(e.InterfaceRef.Interface, x.hasIf, x.ifname), vfEqU32p(e.InterfaceRef.Subinterface, x.hasSub, x.sub)))
	}
	if e.IpInIp == nil {
		ok = vfAnd(ok, !x.hasSrc && !x.hasDst)
	} else {
		ok = vfAnd(ok, vfAnd(vfEqStrp(e.IpInIp.SrcIp, x.hasSrc, x.src), vfEqStrp(e.IpInIp.DstIp, x.hasDst, x.dst)))
	}
	if len(e.EncapHeader) != len(x.eh) {
		return false
	}
	for i := range x.eh {
		h := &x.eh[i]
		g := e.EncapHeader[uint8(h.idx)]
		if g == nil || g.Index == nil || uint64(*g.Index) != h.idx {
			return false
		}
		ok = vfAnd(ok, int64(g.Type) == int64(h.typ))
		if g.Mpls == nil {
			if len(h.labels) != 0 || h.hasTC {
				return false
			}
		} else {
			if len(g.Mpls.MplsLabelStack) != len(h.labels) {
				return false
			}
			for j, l := range g.Mpls.MplsLabelStack {
				u, isNum := l.(aft.UnionUint32)
				if !isNum {
					return false
				}
				ok = vfAnd(ok, uint64(u) == h.labels[j])
			}
			ok = vfAnd(ok, vfEqU8p(g.Mpls.TrafficClass, h.hasTC, h.tc))
		}
		if g.UdpV6 == nil {
			if h.isUDP() {
				return false
			}
		} else {
			v := g.UdpV6
			ok = vfAnd(ok, vfAnd(vfAnd(vfEqU8p(v.Dscp, h.hasDSCP, h.dscp), vfEqU8p(v.IpTtl, h.hasTTL, h.ttl)),
				vfAnd(vfEqU16p(v.DstUdpPort, h.hasDPort, h.dport), vfEqU16p(v.SrcUdpPort, h.hasSPort, h.sport))))
			ok = vfAnd(ok, vfAnd(vfEqStrp(v.SrcIp, h.hasSIP, h.sip), vfEqStrp(v.DstIp, h.hasDIP, h.dip)))
		}
		ok = vfAnd(ok, g.Gre == nil && g.Ipv4 == nil && g.Ipv6 == nil && g.UdpV4 == nil)
	}
	if len(e.PushedMplsLabelStack) != len(x.stack) {
		return false
	}
	for i, l := range e.PushedMplsLabelStack {
		u, isNum := l.(aft.UnionUint32)
		if !isNum {
			return false
		}
		ok = vfAnd(ok, uint64(u) == x.stack[i])
	}
	return ok
}

func vfEqU8p(p *uint8, has bool, v uint64) bool {
	if p == nil {
		return !has
	}
	return vfAnd(has, uint64(*p) == v)
}

func vfEqU16p(p *uint16, has bool, v uint64) bool {
	if p == nil {
		return !has
	}
	return vfAnd(has, uint64(*p) == v)
}

func vfEqSVp(p *wpb.StringValue, has bool, v string) bool {
	if p == nil {
		return !has
	}
	return vfAnd(has, p.Value == v)
}

func vfEqUVp(p *wpb.UintValue, has bool, v uint64) bool {
	if p == nil {
		return !has
	}
	return vfAnd(has, p.Value == v)
}

// vfEqNHXProto: the next-hop message returned by Get carries exactly the extended payload x.
func vfEqNHXProto(b *aftpb.Afts_NextHop, x *vfPayloadX) bool {
	if x == nil {
		x = vfNoX
	}
	ok := vfAnd(vfEqSVp(b.GetIpAddress(), x.hasIP, x.ip), vfEqSVp(b.GetMacAddress(), x.hasMAC, x.mac))
	ok = vfAnd(ok, vfAnd(vfEqSVp(b.GetInterfaceRef().GetInterface(), x.hasIf, x.ifname), vfEqUVp(b.GetInterfaceRef().GetSubinterface(), x.hasSub, x.sub)))
	ok = vfAnd(ok, vfAnd(vfEqSVp(b.GetIpInIp().GetSrcIp(), x.hasSrc, x.src), vfEqSVp(b.GetIpInIp().GetDstIp(), x.hasDst, x.dst)))
	if len(b.GetPushedMplsLabelStack()) != len(x.stack) {
		return false
	}
	for i, l := range b.GetPushedMplsLabelStack() {
		ok = vfAnd(ok, vfAnd(l.GetPushedMplsLabelStackUint64() == x.stack[i], l.GetPushedMplsLabelStackOpenconfigmplstypesmplslabelenum() == 0))
	}
	if len(b.GetEncapHeader()) != len(x.eh) {
		return false
	}
	for _, hk := range b.GetEncapHeader() {
		// Get emits the headers in the order of a Go map walk: matched by index
		var h *vfEncapD
		for i := range x.eh {
			if x.eh[i].idx == hk.GetIndex() {
				h = &x.eh[i]
			}
		}
		if h == nil {
			return false
		}
		g := hk.GetEncapHeader()
		ok = vfAnd(ok, int32(g.GetType()) == h.typ)
		if len(g.GetMpls().GetMplsLabelStack()) != len(h.labels) {
			return false
		}
		for j, l := range g.GetMpls().GetMplsLabelStack() {
			ok = vfAnd(ok, vfAnd(l.GetMplsLabelStackUint64() == h.labels[j], l.GetMplsLabelStackOpenconfigmplstypesmplslabelenum() == 0))
		}
		ok = vfAnd(ok, vfEqUVp(g.GetMpls().GetTrafficClass(), h.hasTC, h.tc))
		v := g.GetUdpV6()
		ok = vfAnd(ok, vfAnd(vfAnd(vfEqUVp(v.GetDscp(), h.hasDSCP, h.dscp), vfEqUVp(v.GetIpTtl(), h.hasTTL, h.ttl)),
			vfAnd(vfEqUVp(v.GetDstUdpPort(), h.hasDPort, h.dport), vfEqUVp(v.GetSrcUdpPort(), h.hasSPort, h.sport))))
		ok = vfAnd(ok, vfAnd(vfEqSVp(v.GetSrcIp(), h.hasSIP, h.sip), vfEqSVp(v.GetDstIp(), h.hasDIP, h.dip)))
		ok = vfAnd(ok, g.GetGre() == nil && g.GetIpv4() == nil && g.GetIpv6() == nil && g.GetUdpV4() == nil)
	}
	ok = vfAnd(ok, vfAnd(b.GetGre() == nil, vfAnd(b.GetTunnelSrcIpAddress() == nil, b.GetVniLabel() == nil)))
	return ok
}

func (t *vfRefTop) decap() int32 {
	if t.x == nil {
		return 0
	}
	return t.x.topDecap
}

func (t *vfRefTop) stack() []uint64 {
	if t.x == nil {
		return nil
	}
	return t.x.stack
}

// vfEqPopped: the label entry's popped stack equals want, in order.
func vfEqPopped(got []aft.Afts_LabelEntry_PoppedMplsLabelStack_Union, want []uint64) bool {
	if len(got) != len(want) {
		return false
	}
	ok := true
	for i, l := range got {
		u, isNum := l.(aft.UnionUint32)
		if !isNum {
			return false
		}
		ok = vfAnd(ok, uint64(u) == want[i])
	}
	return ok
}

func vfEqPoppedProto(got []*aftpb.Afts_LabelEntry_PoppedMplsLabelStackUnion, want []uint64) bool {
	if len(got) != len(want) {
		return false
	}
	ok := true
	for i, l := range got {
		ok = vfAnd(ok, vfAnd(l.GetPoppedMplsLabelStackUint64() == want[i], l.GetPoppedMplsLabelStackOpenconfigmplstypesmplslabelenum() == 0))
	}
	return ok
}

// compareContents: the whole-RIB view (RIBContents: what hooks, the reconciler and callers outside the package
// see) shows exactly the folded entries - compared by table sizes and keys per instance.
func (r *vfRef) compareContents(real *RIB) {
	c, err := real.RIBContents()
	vfAssert(err == nil, "C01:rib-contents-readable")
	if err != nil {
		return
	}
	for _, name := range r.names {
		n := r.ni[name]
		rr := c[name]
		if rr == nil || rr.Afts == nil {
			vfAssert(len(n.v4)+len(n.v6)+len(n.mpls)+len(n.nhg)+len(n.nh) == 0, "C01:rib-contents-equals-fold")
			continue
		}
		a := rr.Afts
		vfAssert(vfAnd(len(a.Ipv4Entry) == len(n.v4), vfAnd(len(a.Ipv6Entry) == len(n.v6), len(a.LabelEntry) == len(n.mpls))), "C01:rib-contents-equals-fold")
		vfAssert(vfAnd(len(a.NextHopGroup) == len(n.nhg), len(a.NextHop) == len(n.nh)), "C01:rib-contents-equals-fold")
		for k := range n.nhg {
			vfAssert(a.NextHopGroup[k] != nil, "C01:rib-contents-equals-fold")
		}
		for k := range n.nh {
			vfAssert(a.NextHop[k] != nil, "C01:rib-contents-equals-fold")
		}
		for k := range n.v4 {
			vfAssert(a.Ipv4Entry[k] != nil, "C01:rib-contents-equals-fold")
		}
	}
}
