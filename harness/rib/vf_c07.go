//go:build verif

package rib

import (
	spb "github.com/openconfig/gribi/v1/proto/service"
)

func init() {
	vfRegister("VfC07_getRIB_q", VfC07_getRIB_q)
	vfRegister("VfC07_getRIB_t", VfC07_getRIB_t)
}

var vfAFTTypes = []spb.AFTType{spb.AFTType_ALL, spb.AFTType_IPV4, spb.AFTType_IPV6, spb.AFTType_MPLS, spb.AFTType_NEXTHOP, spb.AFTType_NEXTHOP_GROUP}

// vfGetCheck: GetRIB of instance name with the given table filter streams exactly the
// installed entries of that scope, each tagged with the instance, payload-equal on the modelled fields.
func vfGetCheck(r *RIB, ref *vfRef, name string, typ spb.AFTType) []*spb.GetResponse {
	h := r.niRIB[name]
	msgCh := make(chan *spb.GetResponse, 64)
	stopCh := make(chan struct{}, 1)
	err := h.GetRIB(map[spb.AFTType]bool{typ: true}, msgCh, stopCh)
	vfAssert(err == nil, "C07:get-succeeds")
	close(msgCh)
	var resps []*spb.GetResponse
	for m := range msgCh {
		resps = append(resps, m)
	}
	n := ref.ni[name]
	want := func(t spb.AFTType) bool { return typ == spb.AFTType_ALL || typ == t }
	exp := 0
	if want(spb.AFTType_IPV4) {
		exp += len(n.v4)
	}
	if want(spb.AFTType_IPV6) {
		exp += len(n.v6)
	}
	if want(spb.AFTType_MPLS) {
		exp += len(n.mpls)
	}
	if want(spb.AFTType_NEXTHOP_GROUP) {
		exp += len(n.nhg)
	}
	if want(spb.AFTType_NEXTHOP) {
		exp += len(n.nh)
	}
	vfAssert(len(resps) == exp, "C07:one-response-per-installed-entry-of-the-scope")
	seen4, seen6, seenM, seenG, seenN := map[string]bool{}, map[string]bool{}, map[uint64]bool{}, map[uint64]bool{}, map[uint64]bool{}
	for _, m := range resps {
		vfAssert(len(m.Entry) == 1, "C07:one-entry-per-response")
		if len(m.Entry) != 1 {
			continue
		}
		e := m.Entry[0]
		vfAssert(e.NetworkInstance == name, "C07:entry-tagged-with-its-instance")
		switch t := e.Entry.(type) {
		case *spb.AFTEntry_Ipv4:
			vfAssert(want(spb.AFTType_IPV4), "C07:table-filter-respected")
			x := n.v4[t.Ipv4.GetPrefix()]
			vfAssert(x != nil && !seen4[t.Ipv4.GetPrefix()], "C07:ipv4-entry-is-installed-and-sent-once")
			seen4[t.Ipv4.GetPrefix()] = true
			if x != nil {
				b := t.Ipv4.GetIpv4Entry()
				vfAssert(vfAnd(vfEqUV(b.GetNextHopGroup() != nil, b.GetNextHopGroup().GetValue(), x.hasNHG, x.nhg),
					vfAnd(vfEqSV(b.GetNextHopGroupNetworkInstance() != nil, b.GetNextHopGroupNetworkInstance().GetValue(), x.hasNHGNI, x.nhgNI),
						vfEqBV(b.GetEntryMetadata() != nil, b.GetEntryMetadata().GetValue(), x.hasMD, x.md))), "C07:ipv4-payload-equals-last-programmed")
			}
		case *spb.AFTEntry_Ipv6:
			vfAssert(want(spb.AFTType_IPV6), "C07:table-filter-respected")
			x := n.v6[t.Ipv6.GetPrefix()]
			vfAssert(x != nil && !seen6[t.Ipv6.GetPrefix()], "C07:ipv6-entry-is-installed-and-sent-once")
			seen6[t.Ipv6.GetPrefix()] = true
			if x != nil {
				b := t.Ipv6.GetIpv6Entry()
				vfAssert(vfAnd(vfEqUV(b.GetNextHopGroup() != nil, b.GetNextHopGroup().GetValue(), x.hasNHG, x.nhg),
					vfAnd(vfEqSV(b.GetNextHopGroupNetworkInstance() != nil, b.GetNextHopGroupNetworkInstance().GetValue(), x.hasNHGNI, x.nhgNI),
						vfEqBV(b.GetEntryMetadata() != nil, b.GetEntryMetadata().GetValue(), x.hasMD, x.md))), "C07:ipv6-payload-equals-last-programmed")
			}
		case *spb.AFTEntry_Mpls:
			vfAssert(want(spb.AFTType_MPLS), "C07:table-filter-respected")
			l := t.Mpls.GetLabelUint64()
			x := n.mpls[l]
			vfAssert(x != nil && !seenM[l], "C07:mpls-entry-is-installed-and-sent-once")
			seenM[l] = true
			if x != nil {
				b := t.Mpls.GetLabelEntry()
				vfAssert(vfAnd(vfEqUV(b.GetNextHopGroup() != nil, b.GetNextHopGroup().GetValue(), x.hasNHG, x.nhg),
					vfAnd(vfEqSV(b.GetNextHopGroupNetworkInstance() != nil, b.GetNextHopGroupNetworkInstance().GetValue(), x.hasNHGNI, x.nhgNI),
						vfEqBV(b.GetEntryMetadata() != nil, b.GetEntryMetadata().GetValue(), x.hasMD, x.md))), "C07:mpls-payload-equals-last-programmed")
			}
		case *spb.AFTEntry_NextHopGroup:
			vfAssert(want(spb.AFTType_NEXTHOP_GROUP), "C07:table-filter-respected")
			id := t.NextHopGroup.GetId()
			x := n.nhg[id]
			vfAssert(x != nil && !seenG[id], "C07:group-is-installed-and-sent-once")
			seenG[id] = true
			if x != nil {
				b := t.NextHopGroup.GetNextHopGroup()
				vfAssert(vfAnd(vfEqUV(b.GetBackupNextHopGroup() != nil, b.GetBackupNextHopGroup().GetValue(), x.hasBackup, x.backup),
					vfEqUV(b.GetColor() != nil, b.GetColor().GetValue(), x.hasColor, x.color)), "C07:group-payload-equals-last-programmed")
				vfAssert(len(b.GetNextHop()) == len(x.members), "C07:group-member-count")
				for _, mm := range b.GetNextHop() {
					rm, ok := x.members[mm.GetIndex()]
					vfAssert(ok, "C07:group-member-is-programmed")
					if ok {
						vfAssert(vfEqUV(mm.GetNextHop().GetWeight() != nil, mm.GetNextHop().GetWeight().GetValue(), rm.hasW, rm.w), "C07:group-member-weight")
					}
				}
			}
		case *spb.AFTEntry_NextHop:
			vfAssert(want(spb.AFTType_NEXTHOP), "C07:table-filter-respected")
			idx := t.NextHop.GetIndex()
			x := n.nh[idx]
			vfAssert(x != nil && !seenN[idx], "C07:next-hop-is-installed-and-sent-once")
			seenN[idx] = true
			if x != nil {
				b := t.NextHop.GetNextHop()
				vfAssert(vfEqSV(b.GetNetworkInstance() != nil, b.GetNetworkInstance().GetValue(), x.hasTag, x.tag), "C07:next-hop-payload-equals-last-programmed")
				if b.GetPopTopLabel() == nil {
					vfAssert(!x.hasPop, "C07:next-hop-pop-top-label-equals-last-programmed")
				} else {
					vfAssert(vfAnd(x.hasPop, b.GetPopTopLabel().GetValue() == x.pop), "C07:next-hop-pop-top-label-equals-last-programmed")
				}
				vfAssert(vfAnd(int32(b.GetEncapsulateHeader()) == x.encap, int32(b.GetDecapsulateHeader()) == x.decap), "C07:next-hop-encapsulation-headers-equal-last-programmed")
			}
		default:
			vfAssert(false, "C07:known-entry-kind")
		}
	}
	return resps
}

func vfEqUV(has bool, v uint64, whas bool, wv uint64) bool {
	if !has {
		return !whas
	}
	return vfAnd(whas, v == wv)
}

func vfEqSV(has bool, v string, whas bool, wv string) bool {
	if !has {
		return !whas
	}
	return vfAnd(whas, v == wv)
}

func vfEqBV(has bool, b []byte, whas bool, wv uint8) bool {
	if !has {
		return !whas
	}
	if !whas || len(b) != 8 {
		return false
	}
	return b[0] == wv
}

func vfGetRun(pre vfPreCfg, rich, fixLow bool) {
	r, ref := vfNewPair(true)
	g := &vfGen{rich: rich, fixLow: fixLow, enums: rich}
	vfCanonical(r, ref, g, pre)
	vfReach("pre-built")
	typ := vfAFTTypes[vfInt("aft", 0, len(vfAFTTypes)-1)]
	name := vfKnownNI("get")
	got := vfGetCheck(r, ref, name, typ)
	if typ == spb.AFTType_ALL {
		// Get(ALL) is the disjoint union of the per-table Gets
		n := 0
		for _, t := range vfAFTTypes[1:] {
			n += len(vfGetCheck(r, ref, name, t))
		}
		vfAssert(n == len(got), "C07:all-is-the-union-of-the-tables")
		// rebuilding a RIB from the responses of both instances reproduces the source RIB
		other := "VRF-A"
		if name == "VRF-A" {
			other = "DEFAULT"
		}
		all := append(got, vfGetCheck(r, ref, other, spb.AFTType_ALL)...)
		rebuilt, err := FromGetResponses("DEFAULT", all)
		vfAssert(err == nil, "C07:responses-can-be-rebuilt-into-a-rib")
		if err == nil {
			if rebuilt.niRIB["VRF-A"] == nil {
				// an instance without entries produces no responses: it is absent from the rebuilt RIB
				vfAssert(len(ref.ni["VRF-A"].v4)+len(ref.ni["VRF-A"].v6)+len(ref.ni["VRF-A"].mpls)+len(ref.ni["VRF-A"].nhg)+len(ref.ni["VRF-A"].nh) == 0, "C07:rebuilt-rib-has-every-non-empty-instance")
				rebuilt.AddNetworkInstance("VRF-A")
			}
			ref.compareP(rebuilt, "C07:rebuilt-", true)
		}
		vfReach("all")
	}
	vfReach("end")
}

func VfC07_getRIB_q() {
	vfGetRun(vfPreCfg{nNH: 1, nNHG: 1, nTop: 1, members: 1, topKinds: vfTopAll}, true, true)
}

func VfC07_getRIB_t() {
	vfGetRun(vfPreCfg{nNH: 2, nNHG: 1, nTop: 2, nHeld: 1, members: 2, topKinds: vfTopAll}, true, false)
}
