//go:build verif

package rib

import (
	spb "github.com/openconfig/gribi/v1/proto/service"
)

func init() {
	vfRegister("VfC07_getRIB_q", VfC07_getRIB_q)
	vfRegister("VfC07_getRIB_t", VfC07_getRIB_t)
	vfRegister("VfC07_getRIB_p", VfC07_getRIB_p)
	vfRegister("VfC07_getRIB_p2", VfC07_getRIB_p2)
	vfRegister("VfC07_getHistory", VfC07_getHistory)
	vfRegister("VfC07_getAfterCascade", VfC07_getAfterCascade)
	vfRegister("VfC07_getRIB_eh", VfC07_getRIB_eh)
}

var vfAFTTypes = []spb.AFTType{spb.AFTType_ALL, spb.AFTType_IPV4, spb.AFTType_IPV6, spb.AFTType_MPLS, spb.AFTType_NEXTHOP, spb.AFTType_NEXTHOP_GROUP}

// vfGetCheck: GetRIB of instance name with the given table filter streams exactly the
// installed entries of that scope, each tagged with the instance, payload-equal on the modelled fields.
func vfGetCheck(r *RIB, ref *vfRef, name string, typ spb.AFTType) []*spb.GetResponse {
	h := r.niRIB[name]
	msgCh := make(chan *spb.GetResponse, 64)
	stopCh := make(chan struct{}, 1)
	err := h.GetRIB(map[spb.AFTType]bool{typ: true}, msgCh, stopCh)
	vfAssert(err == nil, "C07:get-succeeds")
	close(msgCh)
	var resps []*spb.GetResponse
	for m := range msgCh {
		resps = append(resps, m)
	}
	n := ref.ni[name]
	want := func(t spb.AFTType) bool { return typ == spb.AFTType_ALL || typ == t }
	exp := 0
	if want(spb.AFTType_IPV4) {
		exp += len(n.v4)
	}
	if want(spb.AFTType_IPV6) {
		exp += len(n.v6)
	}
	if want(spb.AFTType_MPLS) {
		exp += len(n.mpls)
	}
	if want(spb.AFTType_NEXTHOP_GROUP) {
		exp += len(n.nhg)
	}
	if want(spb.AFTType_NEXTHOP) {
		exp += len(n.nh)
	}
	vfAssert(len(resps) == exp, "C07:one-response-per-installed-entry-of-the-scope")
	seen4, seen6, seenM, seenG, seenN := map[string]bool{}, map[string]bool{}, map[uint64]bool{}, map[uint64]bool{}, map[uint64]bool{}
	for _, m := range resps {
		vfAssert(len(m.Entry) == 1, "C07:one-entry-per-response")
		if len(m.Entry) != 1 {
			continue
		}
		e := m.Entry[0]
		vfAssert(e.NetworkInstance == name, "C07:entry-tagged-with-its-instance")
		switch t := e.Entry.(type) {
		case *spb.AFTEntry_Ipv4:
			vfAssert(want(spb.AFTType_IPV4), "C07:table-filter-respected")
			x := n.v4[t.Ipv4.GetPrefix()]
			vfAssert(x != nil && !seen4[t.Ipv4.GetPrefix()], "C07:ipv4-entry-is-installed-and-sent-once")
			seen4[t.Ipv4.GetPrefix()] = true
			if x != nil {
				b := t.Ipv4.GetIpv4Entry()
				vfAssert(vfAnd(vfEqUV(b.GetNextHopGroup() != nil, b.GetNextHopGroup().GetValue(), x.hasNHG, x.nhg),
					vfAnd(vfEqSV(b.GetNextHopGroupNetworkInstance() != nil, b.GetNextHopGroupNetworkInstance().GetValue(), x.hasNHGNI, x.nhgNI),
						vfEqBV(b.GetEntryMetadata() != nil, b.GetEntryMetadata().GetValue(), x.hasMD, x.md))), "C07:ipv4-payload-equals-last-programmed")
				vfAssert(int32(b.GetDecapsulateHeader()) == x.decap(), "C07:ipv4-decapsulate-header-equals-last-programmed")
			}
		case *spb.AFTEntry_Ipv6:
			vfAssert(want(spb.AFTType_IPV6), "C07:table-filter-respected")
			x := n.v6[t.Ipv6.GetPrefix()]
			vfAssert(x != nil && !seen6[t.Ipv6.GetPrefix()], "C07:ipv6-entry-is-installed-and-sent-once")
			seen6[t.Ipv6.GetPrefix()] = true
			if x != nil {
				b := t.Ipv6.GetIpv6Entry()
				vfAssert(vfAnd(vfEqUV(b.GetNextHopGroup() != nil, b.GetNextHopGroup().GetValue(), x.hasNHG, x.nhg),
					vfAnd(vfEqSV(b.GetNextHopGroupNetworkInstance() != nil, b.GetNextHopGroupNetworkInstance().GetValue(), x.hasNHGNI, x.nhgNI),
						vfEqBV(b.GetEntryMetadata() != nil, b.GetEntryMetadata().GetValue(), x.hasMD, x.md))), "C07:ipv6-payload-equals-last-programmed")
				vfAssert(int32(b.GetDecapsulateHeader()) == x.decap(), "C07:ipv6-decapsulate-header-equals-last-programmed")
			}
		case *spb.AFTEntry_Mpls:
			vfAssert(want(spb.AFTType_MPLS), "C07:table-filter-respected")
			l := t.Mpls.GetLabelUint64()
			x := n.mpls[l]
			vfAssert(x != nil && !seenM[l], "C07:mpls-entry-is-installed-and-sent-once")
			seenM[l] = true
			if x != nil {
				b := t.Mpls.GetLabelEntry()
				vfAssert(vfAnd(vfEqUV(b.GetNextHopGroup() != nil, b.GetNextHopGroup().GetValue(), x.hasNHG, x.nhg),
					vfAnd(vfEqSV(b.GetNextHopGroupNetworkInstance() != nil, b.GetNextHopGroupNetworkInstance().GetValue(), x.hasNHGNI, x.nhgNI),
						vfEqBV(b.GetEntryMetadata() != nil, b.GetEntryMetadata().GetValue(), x.hasMD, x.md))), "C07:mpls-payload-equals-last-programmed")
				vfAssert(vfEqPoppedProto(b.GetPoppedMplsLabelStack(), x.stack()), "C07:mpls-popped-label-stack-equals-last-programmed")
			}
		case *spb.AFTEntry_NextHopGroup:
			vfAssert(want(spb.AFTType_NEXTHOP_GROUP), "C07:table-filter-respected")
			id := t.NextHopGroup.GetId()
			x := n.nhg[id]
			vfAssert(x != nil && !seenG[id], "C07:group-is-installed-and-sent-once")
			seenG[id] = true
			if x != nil {
				b := t.NextHopGroup.GetNextHopGroup()
				vfAssert(vfAnd(vfEqUV(b.GetBackupNextHopGroup() != nil, b.GetBackupNextHopGroup().GetValue(), x.hasBackup, x.backup),
					vfEqUV(b.GetColor() != nil, b.GetColor().GetValue(), x.hasColor, x.color)), "C07:group-payload-equals-last-programmed")
				vfAssert(len(b.GetNextHop()) == len(x.members), "C07:group-member-count")
				for _, mm := range b.GetNextHop() {
					rm, ok := x.members[mm.GetIndex()]
					vfAssert(ok, "C07:group-member-is-programmed")
					if ok {
						vfAssert(vfEqUV(mm.GetNextHop().GetWeight() != nil, mm.GetNextHop().GetWeight().GetValue(), rm.hasW, rm.w), "C07:group-member-weight")
					}
				}
			}
		case *spb.AFTEntry_NextHop:
			vfAssert(want(spb.AFTType_NEXTHOP), "C07:table-filter-respected")
			idx := t.NextHop.GetIndex()
			x := n.nh[idx]
			vfAssert(x != nil && !seenN[idx], "C07:next-hop-is-installed-and-sent-once")
			seenN[idx] = true
			if x != nil {
				b := t.NextHop.GetNextHop()
				vfAssert(vfEqSV(b.GetNetworkInstance() != nil, b.GetNetworkInstance().GetValue(), x.hasTag, x.tag), "C07:next-hop-payload-equals-last-programmed")
				if b.GetPopTopLabel() == nil {
					vfAssert(!x.hasPop, "C07:next-hop-pop-top-label-equals-last-programmed")
				} else {
					vfAssert(vfAnd(x.hasPop, b.GetPopTopLabel().GetValue() == x.pop), "C07:next-hop-pop-top-label-equals-last-programmed")
				}
				vfAssert(vfAnd(int32(b.GetEncapsulateHeader()) == x.encap, int32(b.GetDecapsulateHeader()) == x.decap), "C07:next-hop-encapsulation-headers-equal-last-programmed")
				vfAssert(vfEqNHXProto(b, x.x), "C07:next-hop-extended-payload-equals-last-programmed")
			}
		default:
			vfAssert(false, "C07:known-entry-kind")
		}
	}
	return resps
}

func vfEqUV(has bool, v uint64, whas bool, wv uint64) bool {
	if !has {
		return !whas
	}
	return vfAnd(whas, v == wv)
}

func vfEqSV(has bool, v string, whas bool, wv string) bool {
	if !has {
		return !whas
	}
	return vfAnd(whas, v == wv)
}

func vfEqBV(has bool, b []byte, whas bool, wv uint8) bool {
	if !has {
		return !whas
	}
	if !whas || len(b) != 8 {
		return false
	}
	return b[0] == wv
}

func vfGetRun(pre vfPreCfg, rich, fixLow bool) { vfGetRunP(pre, rich, fixLow, false, 0) }

// vfGetRunP: payload adds the extended payload fields to every entry of the pre-state; reprogram > 0 re-ADDs
// that many next-hops / top-level entries with a fresh payload before the Get ("what was LAST programmed").
func vfGetRunP(pre vfPreCfg, rich, fixLow, payload bool, reprogram int) { vfGetRunPE(pre, rich, fixLow, payload, false, reprogram) }

func vfGetRunPE(pre vfPreCfg, rich, fixLow, payload, encap bool, reprogram int) {
	r, ref := vfNewPair(true)
	g := &vfGen{rich: rich, fixLow: fixLow, enums: rich, payload: payload, encap: encap, lean: reprogram > 0}
	vfCanonical(r, ref, g, pre)
	for i := 0; i < reprogram; i++ {
		d := g.anyOf("re", 1, vfADD, vfREPLACE, []int{vfKNH, vfKMPLS})
		vfSubmit(r, ref, d)
	}
	vfReach("pre-built")
	typ := spb.AFTType_ALL
	if reprogram == 0 {
		typ = vfAFTTypes[vfInt("aft", 0, len(vfAFTTypes)-1)]
	}
	name := vfKnownNI("get")
	got := vfGetCheck(r, ref, name, typ)
	if typ == spb.AFTType_ALL {
		// Get(ALL) is the disjoint union of the per-table Gets
		n := 0
		for _, t := range vfAFTTypes[1:] {
			n += len(vfGetCheck(r, ref, name, t))
		}
		vfAssert(n == len(got), "C07:all-is-the-union-of-the-tables")
		// rebuilding a RIB from the responses of both instances reproduces the source RIB
		other := "VRF-A"
		if name == "VRF-A" {
			other = "DEFAULT"
		}
		all := append(got, vfGetCheck(r, ref, other, spb.AFTType_ALL)...)
		rebuilt, err := FromGetResponses("DEFAULT", all)
		vfAssert(err == nil, "C07:responses-can-be-rebuilt-into-a-rib")
		if err == nil {
			if rebuilt.niRIB["VRF-A"] == nil {
				// an instance without entries produces no responses: it is absent from the rebuilt RIB
				vfAssert(len(ref.ni["VRF-A"].v4)+len(ref.ni["VRF-A"].v6)+len(ref.ni["VRF-A"].mpls)+len(ref.ni["VRF-A"].nhg)+len(ref.ni["VRF-A"].nh) == 0, "C07:rebuilt-rib-has-every-non-empty-instance")
				rebuilt.AddNetworkInstance("VRF-A")
			}
			ref.compareP(rebuilt, "C07:rebuilt-", true)
		}
		vfReach("all")
	}
	vfReach("end")
}

func VfC07_getRIB_q() {
	vfGetRun(vfPreCfg{nNH: 1, nNHG: 1, nTop: 1, members: 1, topKinds: vfTopAll}, true, true)
}

func VfC07_getRIB_t() {
	vfGetRun(vfPreCfg{nNH: 2, nNHG: 1, nTop: 1, nHeld: 1, members: 2, topKinds: vfTopQ}, false, true)
}

// getRIB_p: every next-hop carries one of the 13 extended payload shapes (valid content), IPv4/IPv6 entries a
// decapsulate-header, label entries a popped stack; Get must return them field for field, stacks in order.
func VfC07_getRIB_p() {
	vfGetRunP(vfPreCfg{nNH: 1, nNHG: 1, nTop: 1, members: 1, topKinds: vfTopAll}, false, true, true, 0)
}

// getRIB_p2: as getRIB_p, then one further symbolic ADD/REPLACE of a next-hop / IPv4 / label entry that may
// re-program an installed key with a different payload; Get(ALL) of either instance.
func VfC07_getRIB_p2() {
	vfGetRunP(vfPreCfg{nNH: 1, nNHG: 1, nTop: 1, members: 1, topKinds: []int{vfKMPLS}}, false, true, true, 1)
}

// getHistory: reads interleaved with changes - every Get must reflect the state at ITS moment.
// program (next-hop with address+MAC payload, group, label entry with a popped stack, IPv4 entry with a
// decapsulate-header) -> Get(ALL) -> one of {nothing, Flush of the instance, DELETE of the entries, re-programming the same keys with a strict SUBSET of their payload + Get}
// -> re-program next-hop (interface reference + pushed stack instead), label entry (other stack) and IPv4
// entry (other header) under symbolic keys that may or may not equal the old ones -> Get(ALL) -> Get(NEXTHOP).
func VfC07_getHistory() {
	r, ref := vfNewPair(true)
	g := &vfGen{}
	ni := vfKnownNI("h")
	must := func(d *vfOpD, want int) { vfAssume(vfSubmit(r, ref, d) == want) }
	nh := &vfOpD{id: g.id(), typ: vfADD, kind: vfKNH, ni: ni, idx: vfU64("h.nh"), hasBody: true,
		x: &vfPayloadX{hasIP: true, ip: vfStrK("h.ip", "ip"), hasMAC: true, mac: vfStrK("h.mac", "mac")}}
	must(nh, vfStAcked)
	nhg := &vfOpD{id: g.id(), typ: vfADD, kind: vfKNHG, ni: ni, idx: vfU64("h.nhg"), hasBody: true, members: []vfMember{{idx: nh.idx}}}
	must(nhg, vfStAcked)
	lbl := &vfOpD{id: g.id(), typ: vfADD, kind: vfKMPLS, ni: ni, label: vfU64("h.label"), hasBody: true, hasNHG: true, nhg: nhg.idx,
		x: &vfPayloadX{stack: []uint64{vfU64("h.pop"), vfU64("h.pop")}}}
	must(lbl, vfStAcked)
	v4 := &vfOpD{id: g.id(), typ: vfADD, kind: vfKV4, ni: ni, pfx: vfStrK("h.pfx", "prefix4"), hasBody: true, hasNHG: true, nhg: nhg.idx,
		x: &vfPayloadX{topDecap: 2}}
	must(v4, vfStAcked)
	vfReach("pre-built")
	vfGetCheck(r, ref, ni, spb.AFTType_ALL)
	switch vfInt("h.between", 0, 3) {
	case 3:
		// re-programming that only REMOVES payload: the same keys with a strict subset of what they carried
		// (next-hop: address only; label entry: the first popped label only; IPv4 entry: no decapsulate-header)
		must(&vfOpD{id: g.id(), typ: vfADD, kind: vfKNH, ni: ni, idx: nh.idx, hasBody: true, x: &vfPayloadX{hasIP: true, ip: nh.x.ip}}, vfStAcked)
		must(&vfOpD{id: g.id(), typ: vfADD, kind: vfKMPLS, ni: ni, label: lbl.label, hasBody: true, hasNHG: true, nhg: nhg.idx, x: &vfPayloadX{stack: lbl.x.stack[:1]}}, vfStAcked)
		must(&vfOpD{id: g.id(), typ: vfREPLACE, kind: vfKV4, ni: ni, pfx: v4.pfx, hasBody: true, hasNHG: true, nhg: nhg.idx}, vfStAcked)
		vfGetCheck(r, ref, ni, spb.AFTType_ALL)
		vfReach("shrunk")
	case 1:
		vfAssert(r.Flush([]string{ni}) == nil, "C08:flush-answers-ok-when-everything-was-removed")
		ref.flush([]string{ni})
		vfReach("flushed")
	case 2:
		for _, d := range []*vfOpD{v4, lbl, nhg, nh} {
			del := *d
			del.id, del.typ = g.id(), vfDELETE
			must(&del, vfStAcked)
		}
		vfReach("deleted")
	}
	ref.compareP(r, "C07:tables-", true)
	// re-program: a next-hop (same or another index) with a different KIND of payload
	nh2 := &vfOpD{id: g.id(), typ: vfADD, kind: vfKNH, ni: ni, idx: vfU64("h.nh2"), hasBody: true,
		x: &vfPayloadX{hasIf: true, ifname: vfStrK("h.if", "ni"), hasSub: true, sub: uint64(vfU32("h.sub")), stack: []uint64{vfU64("h.push"), vfU64("h.push"), vfU64("h.push")}}}
	vfAssume(!nh2.x.invalid())
	must(nh2, vfStAcked)
	nhg2 := &vfOpD{id: g.id(), typ: vfADD, kind: vfKNHG, ni: ni, idx: nhg.idx, hasBody: true, members: []vfMember{{idx: nh2.idx}}}
	must(nhg2, vfStAcked)
	lbl2 := &vfOpD{id: g.id(), typ: vfADD, kind: vfKMPLS, ni: ni, label: vfU64("h.label2"), hasBody: true, hasNHG: true, nhg: nhg.idx,
		x: &vfPayloadX{stack: []uint64{vfU64("h.pop2")}}}
	must(lbl2, vfStAcked)
	v42 := &vfOpD{id: g.id(), typ: vfADD, kind: vfKV4, ni: ni, pfx: vfStrK("h.pfx2", "prefix4"), hasBody: true, hasNHG: true, nhg: nhg.idx,
		x: &vfPayloadX{topDecap: 3}}
	must(v42, vfStAcked)
	vfGetCheck(r, ref, ni, spb.AFTType_ALL)
	vfGetCheck(r, ref, ni, spb.AFTType_NEXTHOP)
	vfGetCheck(r, ref, ni, spb.AFTType_MPLS)
	vfReach("end")
}

// getRIB_eh: next-hops carrying encapsulation headers (MPLS stack + traffic class, UDPv6 with every field, two
// headers in either index order): Get returns every header field for field, matched by index.
func VfC07_getRIB_eh() {
	vfGetRunPE(vfPreCfg{nNH: 1, nNHG: 1, members: 1}, false, true, true, true, 0)
}

// getAfterCascade: entries that were HELD and are installed by a cascade show up in THEIR OWN instance's Get:
// an IPv4 / IPv6 / label entry in either instance waits for a group of the default instance; the group's ADD (in
// DEFAULT) installs it; Get(ALL) of both instances and the rebuilt RIB are compared with the reference.
func VfC07_getAfterCascade() {
	r, ref := vfNewPair(true)
	g := &vfGen{}
	must := func(d *vfOpD, want int) { vfAssume(vfSubmit(r, ref, d) == want) }
	must(&vfOpD{id: g.id(), typ: vfADD, kind: vfKNH, ni: "DEFAULT", idx: 1, hasBody: true}, vfStAcked)
	gid := vfU64("g")
	ent := &vfOpD{id: g.id(), typ: vfADD, kind: vfTopAll[vfInt("kind", 0, 2)], ni: vfKnownNI("ent"), hasBody: true, hasNHG: true, nhg: gid}
	if ent.ni != "DEFAULT" || vfBool("explicit-instance") {
		ent.hasNHGNI, ent.nhgNI = true, "DEFAULT"
	}
	switch ent.kind {
	case vfKV4:
		ent.pfx = vfStrK("pfx", "prefix4")
	case vfKV6:
		ent.pfx = vfStrK("pfx6", "prefix6")
	default:
		ent.label = vfU64("label")
	}
	must(ent, vfStHeld)
	must(&vfOpD{id: g.id(), typ: vfADD, kind: vfKNHG, ni: "DEFAULT", idx: gid, hasBody: true, members: []vfMember{{idx: 1}}}, vfStAcked)
	vfReach("pre-built")
	vfAssert(len(ref.held) == 0, "C07:cascade-installed-the-held-entry")
	all := append(vfGetCheck(r, ref, "DEFAULT", spb.AFTType_ALL), vfGetCheck(r, ref, "VRF-A", spb.AFTType_ALL)...)
	rebuilt, err := FromGetResponses("DEFAULT", all)
	vfAssert(err == nil, "C07:responses-can-be-rebuilt-into-a-rib")
	if err == nil {
		if rebuilt.niRIB["VRF-A"] == nil {
			rebuilt.AddNetworkInstance("VRF-A")
		}
		ref.compareP(rebuilt, "C07:rebuilt-", true)
	}
	vfReach("end")
}
