//go:build verif

package rib

// Shared driver for the RIB-level harnesses: a canonical pre-state built
// through the public API with symbolic contents, then symbolic steps, each
// checked against the reference (vf_ref.go).

const (
	vfStAcked = iota
	vfStFailed
	vfStHeld
	vfStErr
)

func vfNewPair(fwd bool) (*RIB, *vfRef) {
	var r *RIB
	if fwd {
		r = New("DEFAULT")
	} else {
		r = New("DEFAULT", DisableForwardReferences())
	}
	if err := r.AddNetworkInstance("VRF-A"); err != nil {
		panic(err)
	}
	return r, vfNewRef("DEFAULT", fwd, "VRF-A")
}

// vfSubmit sends d to the real RIB, checks the answer, and returns what happened to d.
func vfSubmit(r *RIB, ref *vfRef, d *vfOpD) int {
	op := d.proto()
	var oks, fails []*OpResult
	var err error
	if d.typ == vfDELETE {
		oks, fails, err = r.DeleteEntry(d.ni, op)
	} else {
		oks, fails, err = r.AddEntry(d.ni, op)
	}
	a := vfAnswer{oks: vfIDs(oks), fails: vfIDs(fails), err: err}
	ref.check(d, a)
	if err != nil {
		return vfStErr
	}
	for _, id := range a.oks {
		if id == d.id {
			return vfStAcked
		}
	}
	for _, id := range a.fails {
		if id == d.id {
			return vfStFailed
		}
	}
	return vfStHeld
}

func vfKnownNI(name string) string {
	if vfBool(name + ".vrf") {
		return "VRF-A"
	}
	return "DEFAULT"
}

type vfGen struct {
	// pfx prefixes every symbolic input name (two worlds in one harness)
	pfx    string
	// concPfx: prefixes are drawn from short lists of concrete strings incl. non-canonical spellings
	concPfx bool
	nextID uint64
	// fixLow: next-hops and groups of the pre-state live in the default instance
	fixLow bool
	// splitLow: the first next-hop / group lives in the default instance, the second in the VRF
	splitLow bool
	nLow     map[string]int
	// rich: pre-state operations also vary the presence of optional payload fields
	rich bool
	// enums: next-hops carry encapsulate-/decapsulate-header enum numbers (pre-state: defined numbers;
	// symbolic steps: any int32)
	enums bool
	// payload: entries carry the extended payload (vfPayloadX) in one of the shapes of nhx / topx;
	// payloadValidOnly: pre-state entries only take the schema-valid shapes
	payload bool
	// encap: the extended payload of next-hops is drawn from the encapsulation-header shapes instead
	encap bool
	// weights: group members carry an optional symbolic weight (any 64-bit value, 0 included); duplicate member
	// indices are excluded then (duplicates with different weights are order-dependent in the real pipeline)
	weights bool
	// lean: symbolic steps on top-level entries always carry a body and a group reference and nothing else
	// optional (the optional fields are explored by the other harnesses); pre-state slots are always live
	lean bool
}

// vfBadIPs / vfBadMACs: strings the schema patterns reject.
var vfBadIPs = []string{"", "1.2.3", "300.1.1.1", "01.2.3.4", "1.2.3.4/32", "fe80::1%eth0", "::ffff:1.2.3.4", "2001:db8::g"}
var vfBadMACs = []string{"", "00:11:22:33:44", "0:1:2:3:4:5", "00-11-22-33-44-55", "gg:11:22:33:44:55", "00:11:22:33:44:55:66"}

// nhx: one of 16 extended payload shapes of a next-hop; validOnly restricts to shapes the schema accepts
// (labels and the subinterface number stay symbolic: they are constrained by an assumption instead).
func (g *vfGen) nhx(name string, validOnly bool) *vfPayloadX {
	x := &vfPayloadX{}
	// shapes 0-12: addresses / references / stacks; shapes 13-15: encapsulation headers (selected by g.encap)
	sh := 0
	if g.encap {
		if k := vfInt(name+".px", 0, 3); k > 0 {
			sh = 12 + k
		}
	} else {
		sh = vfInt(name+".px", 0, 12)
	}
	switch sh {
	case 0:
		return nil
	case 1:
		x.hasIP, x.ip = true, vfStrK(name+".ip", "ip")
	case 2:
		x.hasIP, x.ip = true, vfBadIPs[vfInt(name+".badip", 0, len(vfBadIPs)-1)]
	case 3:
		x.hasMAC, x.mac = true, vfStrK(name+".mac", "mac")
	case 4:
		x.hasMAC, x.mac = true, vfBadMACs[vfInt(name+".badmac", 0, len(vfBadMACs)-1)]
	case 5:
		x.hasIf, x.ifname = true, vfStrK(name+".if", "ni")
	case 6:
		x.hasIf, x.ifname = true, vfStrK(name+".if", "ni")
		x.hasSub, x.sub = true, vfU64(name+".sub")
	case 7:
		x.hasSub, x.sub = true, vfU64(name+".sub")
	case 8:
		x.hasSrc, x.src = true, vfStrK(name+".src", "ip")
		x.hasDst, x.dst = true, vfStrK(name+".dst", "ip")
	case 9:
		x.hasSrc, x.src = true, vfBadIPs[vfInt(name+".badip", 0, len(vfBadIPs)-1)]
		x.hasDst, x.dst = true, vfStrK(name+".dst", "ip")
	case 10:
		x.stack = []uint64{vfU64(name + ".push")}
	case 11:
		x.stack = []uint64{vfU64(name + ".push"), vfU64(name + ".push")}
	case 12:
		x.hasIP, x.ip = true, vfStrK(name+".ip", "ip")
		x.hasMAC, x.mac = true, vfStrK(name+".mac", "mac")
		x.hasIf, x.ifname = true, vfStrK(name+".if", "ni")
		x.hasSub, x.sub = true, vfU64(name+".sub")
		x.hasSrc, x.src = true, vfStrK(name+".src", "ip")
		x.hasDst, x.dst = true, vfStrK(name+".dst", "ip")
		x.stack = []uint64{vfU64(name + ".push"), vfU64(name + ".push"), vfU64(name + ".push")}
	case 13:
		// one MPLS encapsulation header: index 0 or 255, label stack of 2 (any 64-bit labels), any traffic class
		x.eh = []vfEncapD{{idx: uint64(vfInt(name+".eh.idx", 0, 1)) * 255, typ: 4, labels: []uint64{vfU64(name + ".eh.l"), vfU64(name + ".eh.l")}, hasTC: true, tc: vfU64(name + ".eh.tc")}}
	case 14:
		// one UDPv6 encapsulation header with every field: any numbers, valid addresses
		x.eh = []vfEncapD{{idx: 1, typ: 8, hasDSCP: true, dscp: vfU64(name + ".eh.dscp"), hasDPort: true, dport: vfU64(name + ".eh.dport"), hasSPort: true, sport: vfU64(name + ".eh.sport"),
			hasTTL: true, ttl: vfU64(name + ".eh.ttl"), hasSIP: true, sip: vfStrK(name+".eh.sip", "ip"), hasDIP: true, dip: vfStrK(name+".eh.dip", "ip")}}
	case 15:
		// two headers (MPLS with one label, UDPv6 with ports only) in either index order, plus an address
		a, b := uint64(1), uint64(2)
		if vfBool(name + ".eh.swap") {
			a, b = b, a
		}
		x.eh = []vfEncapD{{idx: a, typ: 4, labels: []uint64{vfU64(name + ".eh.l")}}, {idx: b, typ: 8, hasDPort: true, dport: vfU64(name + ".eh.dport"), hasSIP: true, sip: "2001:db8::g"}}
		if vfBool(name + ".eh.goodsip") {
			x.eh[1].sip = vfStrK(name+".eh.sip", "ip")
		}
		x.hasIP, x.ip = true, vfStrK(name+".ip", "ip")
	}
	if validOnly {
		vfAssume(!x.invalid())
	}
	return x
}

// topx: extended payload of a top-level entry - a defined decapsulate-header number (IPv4/IPv6) or a
// popped label stack of 0-2 symbolic labels (label entries).
func (g *vfGen) topx(name string, kind int, validOnly bool) *vfPayloadX {
	if !vfBool(name + ".hasX") {
		return nil
	}
	x := &vfPayloadX{}
	if kind == vfKMPLS {
		n := vfInt(name+".npop", 1, 2)
		for i := 0; i < n; i++ {
			x.stack = append(x.stack, vfU64(name+".pop"))
		}
		if validOnly {
			vfAssume(!x.invalid())
		}
		return x
	}
	x.topDecap = vfI32(name + ".decap")
	vfAssume(vfAnd(x.topDecap >= 1, x.topDecap <= 8))
	return x
}

// weigh gives member m an optional symbolic weight (when g.weights) and keeps member indices distinct.
func (g *vfGen) weigh(name string, m *vfMember, prev []vfMember) {
	if !g.weights {
		return
	}
	for _, p := range prev {
		vfAssume(p.idx != m.idx)
	}
	if vfBool(name + ".m.hasW") {
		m.hasW, m.w = true, vfU64(name+".m.w")
	}
}

func (g *vfGen) id() uint64 { g.nextID++; return g.nextID }

func (g *vfGen) lowNI(name string) string {
	if g.splitLow {
		if g.nLow == nil {
			g.nLow = map[string]int{}
		}
		g.nLow[name]++
		if g.nLow[name]%2 == 1 {
			return "DEFAULT"
		}
		return "VRF-A"
	}
	if g.fixLow {
		return "DEFAULT"
	}
	return vfKnownNI(name)
}

func (g *vfGen) nh(name string) *vfOpD {
	d := &vfOpD{id: g.id(), typ: vfADD, kind: vfKNH, ni: g.lowNI(name), idx: vfU64(name + ".idx"), hasBody: true}
	if g.rich && vfBool(name+".hasTag") {
		d.hasTag, d.tag = true, vfStrK(name+".tag", "ni")
	}
	if g.rich && vfBool(name+".hasPop") {
		d.hasPop, d.pop = true, vfBool(name+".pop")
	}
	if g.enums {
		d.encap, d.decap = vfI32(name+".encap"), vfI32(name+".decap")
		vfAssume(vfAnd(vfEncapDefined(d.encap), vfEncapDefined(d.decap)))
	}
	if g.payload {
		d.x = g.nhx(name, true)
	}
	return d
}

func (g *vfGen) nhg(name string, maxMembers int) *vfOpD {
	d := &vfOpD{id: g.id(), typ: vfADD, kind: vfKNHG, ni: g.lowNI(name), idx: vfU64(name + ".id"), hasBody: true}
	lo := 0
	if g.lean {
		lo = maxMembers
	}
	n := vfInt(name+".nm", lo, maxMembers)
	for i := 0; i < n; i++ {
		m := vfMember{idx: vfU64(name + ".m.idx")}
		g.weigh(name, &m, d.members)
		d.members = append(d.members, m)
	}
	if g.rich && vfBool(name+".hasBackup") {
		d.hasBackup, d.backup = true, vfU64(name+".backup")
	}
	return d
}

func (g *vfGen) topFields(d *vfOpD, name string) {
	d.hasBody = true
	d.hasNHG, d.nhg = true, vfU64(name+".nhg")
	if !g.lean && vfBool(name+".hasNHGNI") {
		d.hasNHGNI, d.nhgNI = true, vfStrK(name+".nhgNI", "ni")
	}
	if !g.rich {
		d.hasMD, d.md = true, vfU8(name+".md")
	} else if vfBool(name + ".hasMD") {
		d.hasMD, d.md = true, vfU8(name+".md")
	}
}

// vfConcPfx4 / vfConcPfx6: accepted prefixes that are NOT in canonical form (host bits set, upper-case hex, zero
// groups not compressed) next to their canonical spellings.  Keys of the prefix tables are the strings as sent.
var vfConcPfx4 = []string{"10.0.0.0/8", "10.1.2.3/8", "10.0.0.0/16"}
var vfConcPfx6 = []string{"2001:db8::/64", "2001:db8::1/64", "2001:DB8::/64", "2001:db8:0::/64"}

func (g *vfGen) prefix(name, kind string) string {
	if !g.concPfx {
		return vfStrK(name+".pfx", kind)
	}
	if kind == "prefix4" {
		return vfConcPfx4[vfInt(name+".pfx.choice", 0, len(vfConcPfx4)-1)]
	}
	return vfConcPfx6[vfInt(name+".pfx.choice", 0, len(vfConcPfx6)-1)]
}

func (g *vfGen) top(name string, kind int) *vfOpD {
	d := &vfOpD{id: g.id(), typ: vfADD, kind: kind, ni: vfKnownNI(name)}
	switch kind {
	case vfKV4:
		d.pfx = g.prefix(name, "prefix4")
	case vfKV6:
		d.pfx = g.prefix(name, "prefix6")
	case vfKMPLS:
		d.label = vfU64(name + ".label")
	}
	g.topFields(d, name)
	if g.payload {
		d.x = g.topx(name, kind, true)
	}
	return d
}

// any: a fully symbolic operation (kind, type, instance name, key, payload, references).
func (g *vfGen) any(name string, maxMembers int) *vfOpD {
	return g.anyOf(name, maxMembers, 1, 3, nil)
}

// anyOf: as any, with the operation type in [typLo,typHi] and the kind drawn from kinds (nil: all five).
func (g *vfGen) anyOf(name string, maxMembers, typLo, typHi int, kinds []int) *vfOpD {
	kind := 0
	if kinds == nil {
		kind = vfInt(name+".kind", 0, 4)
	} else {
		kind = kinds[vfInt(name+".kind", 0, len(kinds)-1)]
	}
	d := &vfOpD{id: g.id(), typ: vfInt(name+".typ", typLo, typHi), kind: kind}
	if g.lean {
		d.ni = vfKnownNI(name)
	} else {
		d.ni = vfStrK(name+".ni", "ni")
	}
	d.hasBody = g.lean || vfBool(name+".hasBody")
	switch d.kind {
	case vfKV4:
		d.pfx = g.prefix(name, "prefix4")
	case vfKV6:
		d.pfx = g.prefix(name, "prefix6")
	case vfKMPLS:
		d.label = vfU64(name + ".label")
	case vfKNHG, vfKNH:
		d.idx = vfU64(name + ".idx")
	}
	if !d.hasBody {
		return d
	}
	switch d.kind {
	case vfKV4, vfKV6, vfKMPLS:
		if g.lean || vfBool(name+".hasNHG") {
			d.hasNHG, d.nhg = true, vfU64(name+".nhg")
		}
		if !g.lean && vfBool(name+".hasNHGNI") {
			d.hasNHGNI, d.nhgNI = true, vfStrK(name+".nhgNI", "ni")
		}
		if !g.lean && vfBool(name+".hasMD") {
			d.hasMD, d.md = true, vfU8(name+".md")
		}
		if g.payload {
			d.x = g.topx(name, d.kind, false)
		}
	case vfKNHG:
		n := vfInt(name+".nm", 0, maxMembers)
		for i := 0; i < n; i++ {
			m := vfMember{idx: vfU64(name + ".m.idx")}
			g.weigh(name, &m, d.members)
			d.members = append(d.members, m)
		}
		if vfBool(name + ".hasBackup") {
			d.hasBackup, d.backup = true, vfU64(name+".backup")
		}
	case vfKNH:
		if vfBool(name + ".hasTag") {
			d.hasTag, d.tag = true, vfStrK(name+".tag", "ni")
		}
		if vfBool(name + ".hasPop") {
			d.hasPop, d.pop = true, vfBool(name+".pop")
		}
		if g.enums {
			d.encap, d.decap = vfI32(name+".encap"), vfI32(name+".decap")
		}
		if g.payload {
			d.x = g.nhx(name, false)
		}
	}
	return d
}

type vfPreCfg struct {
	nNH, nNHG, nTop, nHeld int
	// nStale: held REPLACE operations whose key has since been deleted
	// (history: ADD key, REPLACE key with an unresolvable reference -> held, DELETE key)
	nStale int
	// heldTopOnly: held operations are top-level entries (not groups)
	heldTopOnly bool
	members            int
	topKinds           []int
}

// vfCanonical builds a reference-closed pre-state through the public API:
// next-hops, then groups, then top-level entries (all acknowledged), then held
// operations.  Every slot is optional (symbolic liveness); contents are symbolic.
func vfCanonical(r *RIB, ref *vfRef, g *vfGen, c vfPreCfg) {
	for i := 0; i < c.nNH; i++ {
		if g.lean || vfBool(g.pfx+"pre.nh.live") {
			vfAssume(vfSubmit(r, ref, g.nh(g.pfx+"pre.nh")) == vfStAcked)
		}
	}
	for i := 0; i < c.nNHG; i++ {
		if g.lean || vfBool(g.pfx+"pre.nhg.live") {
			vfAssume(vfSubmit(r, ref, g.nhg(g.pfx+"pre.nhg", c.members)) == vfStAcked)
		}
	}
	for i := 0; i < c.nTop; i++ {
		if vfBool(g.pfx+"pre.top.live") {
			k := c.topKinds[vfInt(g.pfx+"pre.top.kind", 0, len(c.topKinds)-1)]
			vfAssume(vfSubmit(r, ref, g.top(g.pfx+"pre.top", k)) == vfStAcked)
		}
	}
	for i := 0; i < c.nHeld; i++ {
		if vfBool(g.pfx+"pre.held.live") {
			var d *vfOpD
			if !c.heldTopOnly && vfBool(g.pfx+"pre.held.isNHG") {
				d = g.nhg(g.pfx+"pre.held", c.members)
			} else {
				d = g.top(g.pfx+"pre.held", c.topKinds[vfInt(g.pfx+"pre.held.kind", 0, len(c.topKinds)-1)])
			}
			if g.rich && vfBool(g.pfx+"pre.held.replace") {
				d.typ = vfREPLACE
			}
			vfAssume(vfSubmit(r, ref, d) == vfStHeld)
		}
	}
	for i := 0; i < c.nStale; i++ {
		if vfBool(g.pfx+"pre.stale.live") {
			// needs an installed group to add the entry in the first place
			add := g.top(g.pfx+"pre.stale", vfKV4)
			vfAssume(vfSubmit(r, ref, add) == vfStAcked)
			rep := &vfOpD{id: g.id(), typ: vfREPLACE, kind: vfKV4, ni: add.ni, pfx: add.pfx, hasBody: true,
				hasNHG: true, nhg: vfU64(g.pfx+"pre.stale.newnhg"), hasNHGNI: add.hasNHGNI, nhgNI: add.nhgNI}
			vfAssume(vfSubmit(r, ref, rep) == vfStHeld)
			del := &vfOpD{id: g.id(), typ: vfDELETE, kind: vfKV4, ni: add.ni, pfx: add.pfx, hasBody: true}
			vfAssume(vfSubmit(r, ref, del) == vfStAcked)
		}
	}
	ref.compare(r)
}

// vfRunCfg describes one harness of the RIB family.
type vfRunCfg struct {
	concPfx  bool // prefixes from concrete lists incl. non-canonical spellings
	fwdBoth  bool // explore both "forward references allowed" and "disallowed"
	noFwd    bool // forward references disallowed (when !fwdBoth)
	pre      vfPreCfg
	rich     bool
	fixLow   bool
	splitLow bool
	steps    int
	members  int
	typLo    int
	typHi    int
	kinds    []int
	mapOrder bool // nondeterministic map iteration order (held-operation walk)
	enums    bool // next-hop enum fields (see vfGen.enums)
	payload  bool // extended payload (see vfGen.payload)
	lean     bool // see vfGen.lean
	encap    bool // see vfGen.encap
	weights  bool // see vfGen.weights
}

// vfRIBRun: canonical pre-state + symbolic steps, each answer checked against
// the reference and the full state compared after every step.
func vfRIBRun(c vfRunCfg) {
	fwd := !c.noFwd
	if c.fwdBoth {
		fwd = vfBool("forward-references")
	}
	r, ref := vfNewPair(fwd)
	g := &vfGen{concPfx: c.concPfx, rich: c.rich, fixLow: c.fixLow, splitLow: c.splitLow, enums: c.enums, payload: c.payload, lean: c.lean, encap: c.encap, weights: c.weights}
	pre := c.pre
	if !fwd {
		pre.nHeld = 0
	}
	if c.mapOrder {
		vfMapOrder(true)
	}
	vfCanonical(r, ref, g, pre)
	vfReach("pre-built")
	typLo, typHi := c.typLo, c.typHi
	if typLo == 0 {
		typLo, typHi = 1, 3
	}
	for i := 0; i < c.steps; i++ {
		d := g.anyOf("op", c.members, typLo, typHi, c.kinds)
		st := vfSubmit(r, ref, d)
		ref.compare(r)
		switch st {
		case vfStAcked:
			vfReach("acked")
		case vfStFailed:
			vfReach("failed")
		case vfStHeld:
			vfReach("held")
		case vfStErr:
			vfReach("error")
		}
	}
	r.VfLockProbe()
	vfReach("end")
}
