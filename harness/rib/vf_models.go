//go:build verif

package rib

// Go models of the reflection-driven conversion code (protomap / ytypes /
// ygot).  The gosym engine redirects the real functions to these; the native
// build never calls them except from TestVfModelAgreement, which compares them
// with the real functions on the modelled fields.

import (
	"errors"
	"net/netip"
	"regexp"

	"github.com/openconfig/gribigo/aft"
	"github.com/openconfig/ygot/ygot"

	aftpb "github.com/openconfig/gribi/v1/proto/gribi_aft"
	enums "github.com/openconfig/gribi/v1/proto/gribi_aft/enums"
	wpb "github.com/openconfig/ygot/proto/ywrapper"
)

const vfRe4Src = `^(([0-9]|[1-9][0-9]|1[0-9][0-9]|2[0-4][0-9]|25[0-5])\.){3}([0-9]|[1-9][0-9]|1[0-9][0-9]|2[0-4][0-9]|25[0-5])/([0-9]|[1-2][0-9]|3[0-2])$`

// vfValidPrefix4 / vfValidPrefix6: the schema's pattern check for prefixes.
// Engine: intercepted (symbolic prefixes of kind prefix4/prefix6 are valid by construction).
func vfValidPrefix4(s string) bool { return regexp.MustCompile(vfRe4Src).MatchString(s) }
func vfValidPrefix6(s string) bool {
	p, err := netip.ParsePrefix(s)
	return err == nil && p.Addr().Is6() && !p.Addr().Is4In6() && p.Addr().Zone() == ""
}

// Schema patterns of the leaves the extended payload model covers (oc-inet:ip-address = union of the
// two address patterns, oc-yang:mac-address); compared with the real pipeline by TestVfModelAgreement.
const (
	vfReIP4Src = `^(([0-9]|[1-9][0-9]|1[0-9]{2}|2[0-4][0-9]|25[0-5])(\.([0-9]|[1-9][0-9]|1[0-9]{2}|2[0-4][0-9]|25[0-5])){3})$`
	vfReIP6Src = `^(([0-9a-fA-F]{1,4}:){7}[0-9a-fA-F]{1,4}|([0-9a-fA-F]{1,4}:){1,7}:|([0-9a-fA-F]{1,4}:){1,6}:[0-9a-fA-F]{1,4}|([0-9a-fA-F]{1,4}:){1,5}(:[0-9a-fA-F]{1,4}){1,2}|([0-9a-fA-F]{1,4}:){1,4}(:[0-9a-fA-F]{1,4}){1,3}|([0-9a-fA-F]{1,4}:){1,3}(:[0-9a-fA-F]{1,4}){1,4}|([0-9a-fA-F]{1,4}:){1,2}(:[0-9a-fA-F]{1,4}){1,5}|[0-9a-fA-F]{1,4}:((:[0-9a-fA-F]{1,4}){1,6})|:((:[0-9a-fA-F]{1,4}){1,7}|:))$`
	vfReMACSrc = `^[0-9a-fA-F]{2}(:[0-9a-fA-F]{2}){5}$`
)

// vfReMatch: does s match the pattern?  Engine: intercepted - a concrete s is matched by the host's
// regexp package against the same pattern; a symbolic s of string kind `kind` matches by construction
// (kinded symbolic strings are rendered as members of their kind); any other symbolic s is unsupported.
// (ytypes compiles posix-pattern statements with regexp.CompilePOSIX: ^ and $ match at line boundaries,
// so a string with a valid LINE is accepted - a quirk of the real pipeline that the model reproduces.)
func vfReMatch(pattern, s, kind string) bool { return regexp.MustCompilePOSIX(pattern).MatchString(s) }

func vfValidIP(s string) bool {
	if vfReMatch(vfReIP4Src, s, "ip") {
		return true
	}
	return vfReMatch(vfReIP6Src, s, "ip6")
}
func vfValidMAC(s string) bool { return vfReMatch(vfReMACSrc, s, "mac") }

// vfValidLabel: the range the schema gives an MPLS label carried as a number (pushed / popped stacks, label keys).
func vfValidLabel(v uint64) bool { return vfAnd(v >= 16, v <= 1048575) }

// vfModelUnsupported marks input the models do not cover (engine: path ends inconclusive).
func vfModelUnsupported(what string) {}

// vfCalib returns a calibration fact about the real conversion functions, measured natively
// by TestVfModelCalibrate at the start of every check run and handed to the engine
// (so that the models follow the real code instead of freezing one behaviour).
// "concrete-nh-emits-pop-top": does rib.ConcreteNextHopProto report the pop-top-label leaf?
// (the generic gNMI -> protobuf conversion drops boolean leaves; the function copies it
// explicitly since the fix FX-C07-pop-top-label).
func vfCalib(name string) bool { return vfMeasureCalib()[name] }

// vfMeasureCalib measures the calibration facts against the real functions (native only).
func vfMeasureCalib() map[string]bool {
	tr := true
	idx := uint64(1)
	p, err := ConcreteNextHopProto(&aft.Afts_NextHop{Index: &idx, PopTopLabel: &tr})
	return map[string]bool{
		"concrete-nh-emits-pop-top": err == nil && p.GetNextHop().GetPopTopLabel().GetValue(),
		// does candidateRIB panic (instead of returning an error) for an enum number its type does not define?
		"undefined-enum-panics": vfUndefinedEnumPanics(),
	}
}

// vfUndefinedEnumPanics: native measurement for the calibration fact of the same name
// (several undefined numbers in every modelled enum field).
func vfUndefinedEnumPanics() (panics bool) {
	for _, v := range []int32{-1, 9, 99, 1 << 30} {
		for f := 0; f < 5; f++ {
			func() {
				defer func() {
					if recover() != nil {
						panics = true
					}
				}()
				candidateRIB(vfEnumProbe(f, v))
			}()
		}
	}
	return panics
}

func vfEnumProbe(field int, v int32) *aftpb.Afts {
	e := enums.OpenconfigAftTypesEncapsulationHeaderType(v)
	switch field {
	case 0:
		return &aftpb.Afts{NextHop: []*aftpb.Afts_NextHopKey{{Index: 1, NextHop: &aftpb.Afts_NextHop{EncapsulateHeader: e}}}}
	case 1:
		return &aftpb.Afts{NextHop: []*aftpb.Afts_NextHopKey{{Index: 1, NextHop: &aftpb.Afts_NextHop{DecapsulateHeader: e}}}}
	case 2:
		return &aftpb.Afts{Ipv4Entry: []*aftpb.Afts_Ipv4EntryKey{{Prefix: "1.1.1.1/32", Ipv4Entry: &aftpb.Afts_Ipv4Entry{DecapsulateHeader: e}}}}
	case 3:
		return &aftpb.Afts{LabelEntry: []*aftpb.Afts_LabelEntryKey{{Label: &aftpb.Afts_LabelEntryKey_LabelOpenconfigmplstypesmplslabelenum{
			LabelOpenconfigmplstypesmplslabelenum: enums.OpenconfigMplsTypesMplsLabelEnum(v)}, LabelEntry: &aftpb.Afts_LabelEntry{}}}}
	}
	return &aftpb.Afts{Ipv6Entry: []*aftpb.Afts_Ipv6EntryKey{{Prefix: "2001:db8::/32", Ipv6Entry: &aftpb.Afts_Ipv6Entry{DecapsulateHeader: e}}}}
}

// vfEncapDefined: the numbers OpenconfigAftTypesEncapsulationHeaderType defines (0 = unset .. 8).
func vfEncapDefined(v int32) bool { return vfAnd(v >= 0, v <= 8) }

// vfLabelEnumDefined: the numbers OpenconfigMplsTypesMplsLabelEnum defines (0-4, 8, 9).
func vfLabelEnumDefined(v int32) bool {
	return vfOr(vfAnd(v >= 0, v <= 4), vfOr(v == 8, v == 9))
}

// vfModelUndefinedEnum: what the real pipeline does with an undefined enum number (calibrated).
func vfModelUndefinedEnum() error {
	if vfCalib("undefined-enum-panics") {
		panic("runtime error: invalid memory address or nil pointer dereference (protomap: enum value without descriptor)")
	}
	return errors.New("undefined enum number")
}

// vfMergeBytes: ygot merges a slice leaf by appending the source elements that the destination lacks.
func vfMergeBytes(dst, src aft.Binary) aft.Binary {
	if len(dst) == 0 {
		return append(aft.Binary{}, src...)
	}
	out := append(aft.Binary{}, dst...)
	for _, b := range src {
		found := false
		for _, x := range dst {
			if x == b {
				found = true
			}
		}
		if !found {
			out = append(out, b)
		}
	}
	return out
}

func vfU64p(v uint64) *uint64 { return &v }
func vfStrp(v string) *string { return &v }

// vfModelCandidateRIB models rib.candidateRIB for the five supported entry kinds
// and the fields: key, next-hop-group, next-hop-group-network-instance,
// entry-metadata, group members {index, weight}, backup group, colour,
// next-hop network-instance.
func vfModelCandidateRIB(a *aftpb.Afts) (*aft.RIB, error) {
	nr := &aft.RIB{Afts: &aft.Afts{}}
	if len(a.MacEntry) != 0 || len(a.PolicyForwardingEntry) != 0 {
		vfModelUnsupported("mac/pbr entries")
	}
	// the real pipeline first converts the whole message to paths (protomap.PathsFromProto), which
	// resolves every populated enum field to its name, and validates afterwards
	for _, e := range a.Ipv4Entry {
		if e != nil && e.Ipv4Entry != nil && !vfEncapDefined(int32(e.Ipv4Entry.DecapsulateHeader)) {
			return nil, vfModelUndefinedEnum()
		}
	}
	for _, e := range a.Ipv6Entry {
		if e != nil && e.Ipv6Entry != nil && !vfEncapDefined(int32(e.Ipv6Entry.DecapsulateHeader)) {
			return nil, vfModelUndefinedEnum()
		}
	}
	for _, e := range a.LabelEntry {
		if e != nil {
			if le, ok := e.Label.(*aftpb.Afts_LabelEntryKey_LabelOpenconfigmplstypesmplslabelenum); ok && !vfLabelEnumDefined(int32(le.LabelOpenconfigmplstypesmplslabelenum)) {
				return nil, vfModelUndefinedEnum()
			}
		}
	}
	for _, e := range a.NextHop {
		if e != nil && e.NextHop != nil {
			if !vfEncapDefined(int32(e.NextHop.EncapsulateHeader)) {
				return nil, vfModelUndefinedEnum()
			}
			if !vfEncapDefined(int32(e.NextHop.DecapsulateHeader)) {
				return nil, vfModelUndefinedEnum()
			}
			for _, h := range e.NextHop.EncapHeader {
				if h != nil && h.EncapHeader != nil && !vfEncapDefined(int32(h.EncapHeader.Type)) {
					return nil, vfModelUndefinedEnum()
				}
			}
		}
	}
	for _, e := range a.Ipv4Entry {
		if e == nil {
			return nil, errors.New("nil ipv4 entry")
		}
		if !vfValidPrefix4(e.Prefix) {
			return nil, errors.New("invalid ipv4 prefix")
		}
		if e.Ipv4Entry == nil {
			return nil, errors.New("nil list member")
		}
		ent := &aft.Afts_Ipv4Entry{Prefix: vfStrp(e.Prefix)}
		if ie := e.Ipv4Entry; ie != nil {
			if ie.NextHopGroup != nil {
				ent.NextHopGroup = vfU64p(ie.NextHopGroup.Value)
			}
			if ie.NextHopGroupNetworkInstance != nil {
				ent.NextHopGroupNetworkInstance = vfStrp(ie.NextHopGroupNetworkInstance.Value)
			}
			if ie.EntryMetadata != nil {
				ent.EntryMetadata = append(aft.Binary{}, ie.EntryMetadata.Value...)
			}
			if ie.DecapsulateHeader != 0 {
				ent.DecapsulateHeader = aft.E_AftTypes_EncapsulationHeaderType(ie.DecapsulateHeader)
			}
		}
		if nr.Afts.Ipv4Entry == nil {
			nr.Afts.Ipv4Entry = map[string]*aft.Afts_Ipv4Entry{}
		}
		nr.Afts.Ipv4Entry[e.Prefix] = ent
	}
	for _, e := range a.Ipv6Entry {
		if e == nil {
			return nil, errors.New("nil ipv6 entry")
		}
		if !vfValidPrefix6(e.Prefix) {
			return nil, errors.New("invalid ipv6 prefix")
		}
		if e.Ipv6Entry == nil {
			return nil, errors.New("nil list member")
		}
		ent := &aft.Afts_Ipv6Entry{Prefix: vfStrp(e.Prefix)}
		if ie := e.Ipv6Entry; ie != nil {
			if ie.NextHopGroup != nil {
				ent.NextHopGroup = vfU64p(ie.NextHopGroup.Value)
			}
			if ie.NextHopGroupNetworkInstance != nil {
				ent.NextHopGroupNetworkInstance = vfStrp(ie.NextHopGroupNetworkInstance.Value)
			}
			if ie.EntryMetadata != nil {
				ent.EntryMetadata = append(aft.Binary{}, ie.EntryMetadata.Value...)
			}
			if ie.DecapsulateHeader != 0 {
				ent.DecapsulateHeader = aft.E_AftTypes_EncapsulationHeaderType(ie.DecapsulateHeader)
			}
		}
		if nr.Afts.Ipv6Entry == nil {
			nr.Afts.Ipv6Entry = map[string]*aft.Afts_Ipv6Entry{}
		}
		nr.Afts.Ipv6Entry[e.Prefix] = ent
	}
	for _, e := range a.LabelEntry {
		if e == nil {
			return nil, errors.New("nil label entry")
		}
		if e.LabelEntry == nil {
			return nil, errors.New("nil list member")
		}
		lu, ok := e.Label.(*aftpb.Afts_LabelEntryKey_LabelUint64)
		if !ok {
			if e.Label == nil {
				return nil, errors.New("label entry without label")
			}
			vfModelUnsupported("enumerated label")
			return nil, errors.New("unsupported")
		}
		if !vfValidLabel(lu.LabelUint64) {
			return nil, errors.New("label out of range")
		}
		key := aft.UnionUint32(uint32(lu.LabelUint64))
		ent := &aft.Afts_LabelEntry{Label: key}
		if ie := e.LabelEntry; ie != nil {
			if ie.NextHopGroup != nil {
				ent.NextHopGroup = vfU64p(ie.NextHopGroup.Value)
			}
			if ie.NextHopGroupNetworkInstance != nil {
				ent.NextHopGroupNetworkInstance = vfStrp(ie.NextHopGroupNetworkInstance.Value)
			}
			if ie.EntryMetadata != nil {
				ent.EntryMetadata = append(aft.Binary{}, ie.EntryMetadata.Value...)
			}
			badLabel := false // accumulated branch-free: one decision for the whole stack
			for _, l := range ie.PoppedMplsLabelStack {
				if l == nil {
					vfModelUnsupported("nil element in a repeated field")
					return nil, errors.New("unsupported")
				}
				if l.PoppedMplsLabelStackOpenconfigmplstypesmplslabelenum != 0 {
					vfModelUnsupported("enumerated popped label")
					return nil, errors.New("unsupported")
				}
				badLabel = vfOr(badLabel, !vfValidLabel(l.PoppedMplsLabelStackUint64))
				ent.PoppedMplsLabelStack = append(ent.PoppedMplsLabelStack, aft.UnionUint32(uint32(l.PoppedMplsLabelStackUint64)))
			}
			if badLabel {
				return nil, errors.New("popped label out of range")
			}
		}
		if nr.Afts.LabelEntry == nil {
			nr.Afts.LabelEntry = map[aft.Afts_LabelEntry_Label_Union]*aft.Afts_LabelEntry{}
		}
		nr.Afts.LabelEntry[key] = ent
	}
	for _, e := range a.NextHopGroup {
		if e == nil {
			return nil, errors.New("nil nhg")
		}
		if e.NextHopGroup == nil {
			return nil, errors.New("nil list member")
		}
		ent := &aft.Afts_NextHopGroup{Id: vfU64p(e.Id)}
		if g := e.NextHopGroup; g != nil {
			if g.BackupNextHopGroup != nil {
				ent.BackupNextHopGroup = vfU64p(g.BackupNextHopGroup.Value)
			}
			if g.Color != nil {
				ent.Color = vfU64p(g.Color.Value)
			}
			for _, m := range g.NextHop {
				if m == nil || m.NextHop == nil {
					return nil, errors.New("nil nhg member")
				}
				if ent.NextHop == nil {
					ent.NextHop = map[uint64]*aft.Afts_NextHopGroup_NextHop{}
				}
				me := ent.NextHop[m.Index]
				if me == nil {
					me = &aft.Afts_NextHopGroup_NextHop{Index: vfU64p(m.Index)}
					ent.NextHop[m.Index] = me
				}
				if m.NextHop != nil && m.NextHop.Weight != nil {
					me.Weight = vfU64p(m.NextHop.Weight.Value)
				}
			}
		}
		if nr.Afts.NextHopGroup == nil {
			nr.Afts.NextHopGroup = map[uint64]*aft.Afts_NextHopGroup{}
		}
		nr.Afts.NextHopGroup[e.Id] = ent
	}
	for _, e := range a.NextHop {
		if e == nil {
			return nil, errors.New("nil nh")
		}
		if e.NextHop == nil {
			return nil, errors.New("nil list member")
		}
		ent := &aft.Afts_NextHop{Index: vfU64p(e.Index)}
		if n := e.NextHop; n != nil {
			if n.NetworkInstance != nil {
				ent.NetworkInstance = vfStrp(n.NetworkInstance.Value)
			}
			if n.PopTopLabel != nil {
				b := n.PopTopLabel.Value
				ent.PopTopLabel = &b
			}
			if n.EncapsulateHeader != 0 {
				ent.EncapsulateHeader = aft.E_AftTypes_EncapsulationHeaderType(n.EncapsulateHeader)
			}
			if n.DecapsulateHeader != 0 {
				ent.DecapsulateHeader = aft.E_AftTypes_EncapsulationHeaderType(n.DecapsulateHeader)
			}
			if n.IpAddress != nil {
				if !vfValidIP(n.IpAddress.Value) {
					return nil, errors.New("invalid ip-address")
				}
				ent.IpAddress = vfStrp(n.IpAddress.Value)
			}
			if n.MacAddress != nil {
				if !vfValidMAC(n.MacAddress.Value) {
					return nil, errors.New("invalid mac-address")
				}
				ent.MacAddress = vfStrp(n.MacAddress.Value)
			}
			if r := n.InterfaceRef; r != nil && (r.Interface != nil || r.Subinterface != nil) {
				ir := &aft.Afts_NextHop_InterfaceRef{}
				if r.Interface != nil {
					ir.Interface = vfStrp(r.Interface.Value)
				}
				if r.Subinterface != nil {
					if r.Subinterface.Value > 0xffffffff {
						return nil, errors.New("subinterface does not fit uint32")
					}
					u := uint32(r.Subinterface.Value)
					ir.Subinterface = &u
				}
				ent.InterfaceRef = ir
			}
			if t := n.IpInIp; t != nil && (t.SrcIp != nil || t.DstIp != nil) {
				ii := &aft.Afts_NextHop_IpInIp{}
				if t.SrcIp != nil {
					if !vfValidIP(t.SrcIp.Value) {
						return nil, errors.New("invalid ip-in-ip source")
					}
					ii.SrcIp = vfStrp(t.SrcIp.Value)
				}
				if t.DstIp != nil {
					if !vfValidIP(t.DstIp.Value) {
						return nil, errors.New("invalid ip-in-ip destination")
					}
					ii.DstIp = vfStrp(t.DstIp.Value)
				}
				ent.IpInIp = ii
			}
			badLabel := false
			for _, l := range n.PushedMplsLabelStack {
				if l == nil {
					vfModelUnsupported("nil element in a repeated field")
					return nil, errors.New("unsupported")
				}
				if l.PushedMplsLabelStackOpenconfigmplstypesmplslabelenum != 0 {
					vfModelUnsupported("enumerated pushed label")
					return nil, errors.New("unsupported")
				}
				badLabel = vfOr(badLabel, !vfValidLabel(l.PushedMplsLabelStackUint64))
				ent.PushedMplsLabelStack = append(ent.PushedMplsLabelStack, aft.UnionUint32(uint32(l.PushedMplsLabelStackUint64)))
			}
			if badLabel {
				return nil, errors.New("pushed label out of range")
			}
			for _, hk := range n.EncapHeader {
				if hk == nil {
					vfModelUnsupported("nil element in a repeated field")
					return nil, errors.New("unsupported")
				}
				if hk.EncapHeader == nil {
					return nil, errors.New("nil list member")
				}
				if hk.Index > 0xff {
					return nil, errors.New("encap-header index does not fit uint8")
				}
				h := hk.EncapHeader
				if h.Gre != nil || h.Ipv4 != nil || h.Ipv6 != nil || h.UdpV4 != nil {
					vfModelUnsupported("encap-header kind outside the model")
					return nil, errors.New("unsupported")
				}
				ix := uint8(hk.Index)
				if ent.EncapHeader[ix] != nil {
					vfModelUnsupported("duplicate encap-header index")
					return nil, errors.New("unsupported")
				}
				eh := &aft.Afts_NextHop_EncapHeader{Index: &ix}
				if h.Type != 0 {
					eh.Type = aft.E_AftTypes_EncapsulationHeaderType(h.Type)
				}
				if m := h.Mpls; m != nil && (len(m.MplsLabelStack) != 0 || m.TrafficClass != nil) {
					em := &aft.Afts_NextHop_EncapHeader_Mpls{}
					bad := false
					for _, l := range m.MplsLabelStack {
						if l == nil {
							vfModelUnsupported("nil element in a repeated field")
							return nil, errors.New("unsupported")
						}
						if l.MplsLabelStackOpenconfigmplstypesmplslabelenum != 0 {
							vfModelUnsupported("enumerated label in an encap header")
							return nil, errors.New("unsupported")
						}
						bad = vfOr(bad, !vfValidLabel(l.MplsLabelStackUint64))
						em.MplsLabelStack = append(em.MplsLabelStack, aft.UnionUint32(uint32(l.MplsLabelStackUint64)))
					}
					if m.TrafficClass != nil {
						bad = vfOr(bad, m.TrafficClass.Value > 7)
						tc := uint8(m.TrafficClass.Value)
						em.TrafficClass = &tc
					}
					if bad {
						return nil, errors.New("mpls encap header out of range")
					}
					eh.Mpls = em
				}
				if u := h.UdpV6; u != nil && (u.Dscp != nil || u.DstIp != nil || u.DstUdpPort != nil || u.IpTtl != nil || u.SrcIp != nil || u.SrcUdpPort != nil) {
					eu := &aft.Afts_NextHop_EncapHeader_UdpV6{}
					bad := false
					if u.Dscp != nil {
						bad = vfOr(bad, u.Dscp.Value > 63)
						v := uint8(u.Dscp.Value)
						eu.Dscp = &v
					}
					if u.DstUdpPort != nil {
						bad = vfOr(bad, u.DstUdpPort.Value > 0xffff)
						v := uint16(u.DstUdpPort.Value)
						eu.DstUdpPort = &v
					}
					if u.SrcUdpPort != nil {
						bad = vfOr(bad, u.SrcUdpPort.Value > 0xffff)
						v := uint16(u.SrcUdpPort.Value)
						eu.SrcUdpPort = &v
					}
					if u.IpTtl != nil {
						bad = vfOr(bad, u.IpTtl.Value > 0xff)
						v := uint8(u.IpTtl.Value)
						eu.IpTtl = &v
					}
					if bad {
						return nil, errors.New("udp-v6 encap header out of range")
					}
					if u.SrcIp != nil {
						if !vfValidIP(u.SrcIp.Value) {
							return nil, errors.New("invalid udp-v6 source")
						}
						eu.SrcIp = vfStrp(u.SrcIp.Value)
					}
					if u.DstIp != nil {
						if !vfValidIP(u.DstIp.Value) {
							return nil, errors.New("invalid udp-v6 destination")
						}
						eu.DstIp = vfStrp(u.DstIp.Value)
					}
					eh.UdpV6 = eu
				}
				if ent.EncapHeader == nil {
					ent.EncapHeader = map[uint8]*aft.Afts_NextHop_EncapHeader{}
				}
				ent.EncapHeader[ix] = eh
			}
			if n.Gre != nil || n.TunnelSrcIpAddress != nil || n.VniLabel != nil {
				vfModelUnsupported("next-hop payload field outside the model")
			}
		}
		if nr.Afts.NextHop == nil {
			nr.Afts.NextHop = map[uint64]*aft.Afts_NextHop{}
		}
		nr.Afts.NextHop[e.Index] = ent
	}
	return nr, nil
}

// vfModelMergeStructInto models ygot.MergeStructInto(dst,src) for *aft.RIB:
// absent keys are inserted as deep copies, present keys are merged field-wise
// (a set source field overwrites, an unset one keeps the destination's).
func vfModelMergeStructInto(dst, src ygot.GoStruct, opts ...ygot.MergeOpt) error {
	d, ok1 := dst.(*aft.RIB)
	s, ok2 := src.(*aft.RIB)
	if !ok1 || !ok2 {
		vfModelUnsupported("MergeStructInto on other than *aft.RIB")
		return errors.New("unsupported")
	}
	if s == nil || s.Afts == nil {
		return nil
	}
	if d.Afts == nil {
		d.Afts = &aft.Afts{}
	}
	for k, v := range s.Afts.Ipv4Entry {
		if d.Afts.Ipv4Entry == nil {
			d.Afts.Ipv4Entry = map[string]*aft.Afts_Ipv4Entry{}
		}
		if cur := d.Afts.Ipv4Entry[k]; cur != nil {
			if v.NextHopGroup != nil {
				cur.NextHopGroup = vfU64p(*v.NextHopGroup)
			}
			if v.NextHopGroupNetworkInstance != nil {
				cur.NextHopGroupNetworkInstance = vfStrp(*v.NextHopGroupNetworkInstance)
			}
			if v.EntryMetadata != nil {
				cur.EntryMetadata = vfMergeBytes(cur.EntryMetadata, v.EntryMetadata)
			}
			if v.DecapsulateHeader != 0 {
				cur.DecapsulateHeader = v.DecapsulateHeader
			}
			continue
		}
		c, _ := ygot.DeepCopy(v)
		d.Afts.Ipv4Entry[k] = c.(*aft.Afts_Ipv4Entry)
	}
	for k, v := range s.Afts.Ipv6Entry {
		if d.Afts.Ipv6Entry == nil {
			d.Afts.Ipv6Entry = map[string]*aft.Afts_Ipv6Entry{}
		}
		if cur := d.Afts.Ipv6Entry[k]; cur != nil {
			if v.NextHopGroup != nil {
				cur.NextHopGroup = vfU64p(*v.NextHopGroup)
			}
			if v.NextHopGroupNetworkInstance != nil {
				cur.NextHopGroupNetworkInstance = vfStrp(*v.NextHopGroupNetworkInstance)
			}
			if v.EntryMetadata != nil {
				cur.EntryMetadata = vfMergeBytes(cur.EntryMetadata, v.EntryMetadata)
			}
			if v.DecapsulateHeader != 0 {
				cur.DecapsulateHeader = v.DecapsulateHeader
			}
			continue
		}
		c, _ := ygot.DeepCopy(v)
		d.Afts.Ipv6Entry[k] = c.(*aft.Afts_Ipv6Entry)
	}
	for k, v := range s.Afts.LabelEntry {
		if d.Afts.LabelEntry == nil {
			d.Afts.LabelEntry = map[aft.Afts_LabelEntry_Label_Union]*aft.Afts_LabelEntry{}
		}
		if cur := d.Afts.LabelEntry[k]; cur != nil {
			if v.NextHopGroup != nil {
				cur.NextHopGroup = vfU64p(*v.NextHopGroup)
			}
			if v.NextHopGroupNetworkInstance != nil {
				cur.NextHopGroupNetworkInstance = vfStrp(*v.NextHopGroupNetworkInstance)
			}
			if v.EntryMetadata != nil {
				cur.EntryMetadata = vfMergeBytes(cur.EntryMetadata, v.EntryMetadata)
			}
			origPoppedMplsLabelStack := cur.PoppedMplsLabelStack // elements are compared with the destination's ORIGINAL content only
			for _, l := range v.PoppedMplsLabelStack {
				found := false
				for _, x := range origPoppedMplsLabelStack {
					if x == l {
						found = true
					}
				}
				if !found {
					cur.PoppedMplsLabelStack = append(cur.PoppedMplsLabelStack, l)
				}
			}
			continue
		}
		c, _ := ygot.DeepCopy(v)
		d.Afts.LabelEntry[k] = c.(*aft.Afts_LabelEntry)
	}
	for k, v := range s.Afts.NextHopGroup {
		if d.Afts.NextHopGroup == nil {
			d.Afts.NextHopGroup = map[uint64]*aft.Afts_NextHopGroup{}
		}
		if cur := d.Afts.NextHopGroup[k]; cur != nil {
			if v.BackupNextHopGroup != nil {
				cur.BackupNextHopGroup = vfU64p(*v.BackupNextHopGroup)
			}
			if v.Color != nil {
				cur.Color = vfU64p(*v.Color)
			}
			for mk, mv := range v.NextHop {
				if cur.NextHop == nil {
					cur.NextHop = map[uint64]*aft.Afts_NextHopGroup_NextHop{}
				}
				if cm := cur.NextHop[mk]; cm != nil {
					if mv.Weight != nil {
						cm.Weight = vfU64p(*mv.Weight)
					}
					continue
				}
				c, _ := ygot.DeepCopy(mv)
				cur.NextHop[mk] = c.(*aft.Afts_NextHopGroup_NextHop)
			}
			continue
		}
		c, _ := ygot.DeepCopy(v)
		d.Afts.NextHopGroup[k] = c.(*aft.Afts_NextHopGroup)
	}
	for k, v := range s.Afts.NextHop {
		if d.Afts.NextHop == nil {
			d.Afts.NextHop = map[uint64]*aft.Afts_NextHop{}
		}
		if cur := d.Afts.NextHop[k]; cur != nil {
			if v.NetworkInstance != nil {
				cur.NetworkInstance = vfStrp(*v.NetworkInstance)
			}
			if v.PopTopLabel != nil {
				b := *v.PopTopLabel
				cur.PopTopLabel = &b
			}
			if v.EncapsulateHeader != 0 {
				cur.EncapsulateHeader = v.EncapsulateHeader
			}
			if v.DecapsulateHeader != 0 {
				cur.DecapsulateHeader = v.DecapsulateHeader
			}
			if v.IpAddress != nil {
				cur.IpAddress = vfStrp(*v.IpAddress)
			}
			if v.MacAddress != nil {
				cur.MacAddress = vfStrp(*v.MacAddress)
			}
			if v.InterfaceRef != nil {
				if cur.InterfaceRef == nil {
					cur.InterfaceRef = &aft.Afts_NextHop_InterfaceRef{}
				}
				if v.InterfaceRef.Interface != nil {
					cur.InterfaceRef.Interface = vfStrp(*v.InterfaceRef.Interface)
				}
				if v.InterfaceRef.Subinterface != nil {
					u := *v.InterfaceRef.Subinterface
					cur.InterfaceRef.Subinterface = &u
				}
			}
			if v.IpInIp != nil {
				if cur.IpInIp == nil {
					cur.IpInIp = &aft.Afts_NextHop_IpInIp{}
				}
				if v.IpInIp.SrcIp != nil {
					cur.IpInIp.SrcIp = vfStrp(*v.IpInIp.SrcIp)
				}
				if v.IpInIp.DstIp != nil {
					cur.IpInIp.DstIp = vfStrp(*v.IpInIp.DstIp)
				}
			}
			for ix, h := range v.EncapHeader {
				if cur.EncapHeader == nil {
					cur.EncapHeader = map[uint8]*aft.Afts_NextHop_EncapHeader{}
				}
				if cur.EncapHeader[ix] != nil {
					// (the RIB always deletes a next-hop before merging its replacement; merging INTO an encap header
					// of the same index never happens there and is not modelled)
					vfModelUnsupported("merge into an existing encap header")
					return errors.New("unsupported")
				}
				c, _ := ygot.DeepCopy(h)
				cur.EncapHeader[ix] = c.(*aft.Afts_NextHop_EncapHeader)
			}
			origPushedMplsLabelStack := cur.PushedMplsLabelStack // elements are compared with the destination's ORIGINAL content only
			for _, l := range v.PushedMplsLabelStack {
				found := false
				for _, x := range origPushedMplsLabelStack {
					if x == l {
						found = true
					}
				}
				if !found {
					cur.PushedMplsLabelStack = append(cur.PushedMplsLabelStack, l)
				}
			}
			continue
		}
		c, _ := ygot.DeepCopy(v)
		d.Afts.NextHop[k] = c.(*aft.Afts_NextHop)
	}
	return nil
}

// ---- inverse direction (GetRIB): ConcreteXXXProto on the modelled fields ----

func vfModelConcreteIPv4Proto(e *aft.Afts_Ipv4Entry) (*aftpb.Afts_Ipv4EntryKey, error) {
	p := &aftpb.Afts_Ipv4Entry{}
	if e.NextHopGroup != nil {
		p.NextHopGroup = &wpb.UintValue{Value: *e.NextHopGroup}
	}
	if e.NextHopGroupNetworkInstance != nil {
		p.NextHopGroupNetworkInstance = &wpb.StringValue{Value: *e.NextHopGroupNetworkInstance}
	}
	if e.EntryMetadata != nil {
		p.EntryMetadata = &wpb.BytesValue{Value: append([]byte{}, e.EntryMetadata...)}
	}
	p.DecapsulateHeader = enums.OpenconfigAftTypesEncapsulationHeaderType(e.DecapsulateHeader)
	return &aftpb.Afts_Ipv4EntryKey{Prefix: *e.Prefix, Ipv4Entry: p}, nil
}

func vfModelConcreteIPv6Proto(e *aft.Afts_Ipv6Entry) (*aftpb.Afts_Ipv6EntryKey, error) {
	p := &aftpb.Afts_Ipv6Entry{}
	if e.NextHopGroup != nil {
		p.NextHopGroup = &wpb.UintValue{Value: *e.NextHopGroup}
	}
	if e.NextHopGroupNetworkInstance != nil {
		p.NextHopGroupNetworkInstance = &wpb.StringValue{Value: *e.NextHopGroupNetworkInstance}
	}
	if e.EntryMetadata != nil {
		p.EntryMetadata = &wpb.BytesValue{Value: append([]byte{}, e.EntryMetadata...)}
	}
	p.DecapsulateHeader = enums.OpenconfigAftTypesEncapsulationHeaderType(e.DecapsulateHeader)
	return &aftpb.Afts_Ipv6EntryKey{Prefix: *e.Prefix, Ipv6Entry: p}, nil
}

func vfModelConcreteMPLSProto(e *aft.Afts_LabelEntry) (*aftpb.Afts_LabelEntryKey, error) {
	l, ok := e.Label.(aft.UnionUint32)
	if !ok {
		return nil, errors.New("unsupported label type")
	}
	p := &aftpb.Afts_LabelEntry{}
	if e.NextHopGroup != nil {
		p.NextHopGroup = &wpb.UintValue{Value: *e.NextHopGroup}
	}
	if e.NextHopGroupNetworkInstance != nil {
		p.NextHopGroupNetworkInstance = &wpb.StringValue{Value: *e.NextHopGroupNetworkInstance}
	}
	if e.EntryMetadata != nil {
		p.EntryMetadata = &wpb.BytesValue{Value: append([]byte{}, e.EntryMetadata...)}
	}
	for _, l := range e.PoppedMplsLabelStack {
		u, ok := l.(aft.UnionUint32)
		if !ok {
			return nil, errors.New("unsupported popped label type")
		}
		p.PoppedMplsLabelStack = append(p.PoppedMplsLabelStack, &aftpb.Afts_LabelEntry_PoppedMplsLabelStackUnion{PoppedMplsLabelStackUint64: uint64(u)})
	}
	return &aftpb.Afts_LabelEntryKey{Label: &aftpb.Afts_LabelEntryKey_LabelUint64{LabelUint64: uint64(l)}, LabelEntry: p}, nil
}

func vfModelConcreteNextHopProto(e *aft.Afts_NextHop) (*aftpb.Afts_NextHopKey, error) {
	p := &aftpb.Afts_NextHop{}
	// NOTE: mirrors the real function (checked by TestVfModelAgreement): pop-top-label is handled
	// exactly as rib.ConcreteNextHopProto handles it.
	if e.PopTopLabel != nil && vfCalib("concrete-nh-emits-pop-top") {
		p.PopTopLabel = &wpb.BoolValue{Value: *e.PopTopLabel}
	}
	if e.NetworkInstance != nil {
		p.NetworkInstance = &wpb.StringValue{Value: *e.NetworkInstance}
	}
	p.EncapsulateHeader = enums.OpenconfigAftTypesEncapsulationHeaderType(e.EncapsulateHeader)
	p.DecapsulateHeader = enums.OpenconfigAftTypesEncapsulationHeaderType(e.DecapsulateHeader)
	if e.IpAddress != nil {
		p.IpAddress = &wpb.StringValue{Value: *e.IpAddress}
	}
	if e.MacAddress != nil {
		p.MacAddress = &wpb.StringValue{Value: *e.MacAddress}
	}
	if r := e.InterfaceRef; r != nil && (r.Interface != nil || r.Subinterface != nil) {
		p.InterfaceRef = &aftpb.Afts_NextHop_InterfaceRef{}
		if r.Interface != nil {
			p.InterfaceRef.Interface = &wpb.StringValue{Value: *r.Interface}
		}
		if r.Subinterface != nil {
			p.InterfaceRef.Subinterface = &wpb.UintValue{Value: uint64(*r.Subinterface)}
		}
	}
	if t := e.IpInIp; t != nil && (t.SrcIp != nil || t.DstIp != nil) {
		p.IpInIp = &aftpb.Afts_NextHop_IpInIp{}
		if t.SrcIp != nil {
			p.IpInIp.SrcIp = &wpb.StringValue{Value: *t.SrcIp}
		}
		if t.DstIp != nil {
			p.IpInIp.DstIp = &wpb.StringValue{Value: *t.DstIp}
		}
	}
	for ix, h := range e.EncapHeader {
		ph := &aftpb.Afts_NextHop_EncapHeader{Type: enums.OpenconfigAftTypesEncapsulationHeaderType(h.Type)}
		if m := h.Mpls; m != nil && (len(m.MplsLabelStack) != 0 || m.TrafficClass != nil) {
			ph.Mpls = &aftpb.Afts_NextHop_EncapHeader_Mpls{}
			for _, l := range m.MplsLabelStack {
				u, ok := l.(aft.UnionUint32)
				if !ok {
					return nil, errors.New("unsupported label type")
				}
				ph.Mpls.MplsLabelStack = append(ph.Mpls.MplsLabelStack, &aftpb.Afts_NextHop_EncapHeader_Mpls_MplsLabelStackUnion{MplsLabelStackUint64: uint64(u)})
			}
			if m.TrafficClass != nil {
				ph.Mpls.TrafficClass = &wpb.UintValue{Value: uint64(*m.TrafficClass)}
			}
		}
		if u := h.UdpV6; u != nil && (u.Dscp != nil || u.DstIp != nil || u.DstUdpPort != nil || u.IpTtl != nil || u.SrcIp != nil || u.SrcUdpPort != nil) {
			ph.UdpV6 = &aftpb.Afts_NextHop_EncapHeader_UdpV6{}
			if u.Dscp != nil {
				ph.UdpV6.Dscp = &wpb.UintValue{Value: uint64(*u.Dscp)}
			}
			if u.DstUdpPort != nil {
				ph.UdpV6.DstUdpPort = &wpb.UintValue{Value: uint64(*u.DstUdpPort)}
			}
			if u.SrcUdpPort != nil {
				ph.UdpV6.SrcUdpPort = &wpb.UintValue{Value: uint64(*u.SrcUdpPort)}
			}
			if u.IpTtl != nil {
				ph.UdpV6.IpTtl = &wpb.UintValue{Value: uint64(*u.IpTtl)}
			}
			if u.SrcIp != nil {
				ph.UdpV6.SrcIp = &wpb.StringValue{Value: *u.SrcIp}
			}
			if u.DstIp != nil {
				ph.UdpV6.DstIp = &wpb.StringValue{Value: *u.DstIp}
			}
		}
		p.EncapHeader = append(p.EncapHeader, &aftpb.Afts_NextHop_EncapHeaderKey{Index: uint64(ix), EncapHeader: ph})
	}
	for _, l := range e.PushedMplsLabelStack {
		u, ok := l.(aft.UnionUint32)
		if !ok {
			return nil, errors.New("unsupported pushed label type")
		}
		p.PushedMplsLabelStack = append(p.PushedMplsLabelStack, &aftpb.Afts_NextHop_PushedMplsLabelStackUnion{PushedMplsLabelStackUint64: uint64(u)})
	}
	return &aftpb.Afts_NextHopKey{Index: *e.Index, NextHop: p}, nil
}

func vfModelConcreteNextHopGroupProto(e *aft.Afts_NextHopGroup) (*aftpb.Afts_NextHopGroupKey, error) {
	p := &aftpb.Afts_NextHopGroup{}
	if e.BackupNextHopGroup != nil {
		p.BackupNextHopGroup = &wpb.UintValue{Value: *e.BackupNextHopGroup}
	}
	if e.Color != nil {
		p.Color = &wpb.UintValue{Value: *e.Color}
	}
	for k, m := range e.NextHop {
		mk := &aftpb.Afts_NextHopGroup_NextHopKey{Index: k, NextHop: &aftpb.Afts_NextHopGroup_NextHop{}}
		if m.Weight != nil {
			mk.NextHop.Weight = &wpb.UintValue{Value: *m.Weight}
		}
		p.NextHop = append(p.NextHop, mk)
	}
	return &aftpb.Afts_NextHopGroupKey{Id: *e.Id, NextHopGroup: p}, nil
}
