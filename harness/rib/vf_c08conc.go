//go:build verif

package rib

import (
	"sync"

	aftpb "github.com/openconfig/gribi/v1/proto/gribi_aft"
	spb "github.com/openconfig/gribi/v1/proto/service"
)

func init() { vfRegister("VfC08_flushConcurrent", VfC08_flushConcurrent) }

// VfC08_flushConcurrent: two authorised Flush calls whose targets share both instances run at the same time, as
// two Flush RPCs do (Server.Flush passes the sorted list of known instances).  Every schedule with up to two
// pre-emptions and every iteration order of the maps the code walks: both calls return without error, both
// instances are empty, no lock is left behind.  Natively the pair is repeated (real scheduler, real map order).
func VfC08_flushConcurrent() {
	r := New("DEFAULT")
	if err := r.AddNetworkInstance("VRF-A"); err != nil {
		panic(err)
	}
	nis := []string{"DEFAULT", "VRF-A"}
	install := func(id uint64) {
		for _, ni := range nis {
			op := &spb.AFTOperation{Id: id, NetworkInstance: ni, Op: spb.AFTOperation_ADD,
				Entry: &spb.AFTOperation_NextHop{NextHop: &aftpb.Afts_NextHopKey{Index: 1, NextHop: &aftpb.Afts_NextHop{}}}}
			oks, _, err := r.AddEntry(ni, op)
			if err != nil || len(oks) != 1 {
				panic("pre-state not installed")
			}
		}
	}
	trials := 1
	if !vfEngine() {
		trials = 400
	}
	var errs [2]error
	for t := 0; t < trials; t++ {
		install(uint64(t + 1))
		var wg sync.WaitGroup
		wg.Add(2)
		vfMapOrder(true)
		vfSched(2)
		for i := 0; i < 2; i++ {
			i := i
			go func() {
				defer wg.Done()
				errs[i] = r.Flush([]string{"DEFAULT", "VRF-A"})
			}()
		}
		wg.Wait()
		vfSched(0)
		vfMapOrder(false)
		vfAssert(errs[0] == nil && errs[1] == nil, "C08:concurrent-flushes-both-succeed")
		for _, ni := range nis {
			h, ok := r.NetworkInstanceRIB(ni)
			vfAssert(ok && len(h.r.Afts.NextHop) == 0, "C08:concurrent-flushes-leave-the-instances-empty")
		}
	}
	r.VfLockProbe()
	vfReach("end")
}
