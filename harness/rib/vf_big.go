//go:build verif

package rib

import spb "github.com/openconfig/gribi/v1/proto/service"

// Scale bound: a LARGE pre-state with concrete shape (12+4 next-hops, 6+2 groups of two members,
// 6 IPv4 / 4 MPLS / 2 IPv6 entries over two instances incl. cross-instance references, 6 held
// groups, 3 held entries) built through the public API, then ONE fully symbolic operation whose
// key / references may hit any of the installed or held objects (or none).  Complements the
// small-symbolic-state harnesses: defects that need many objects (thresholds, counters above 1,
// long walks over the held set) are outside those bounds.

func init() {
	vfRegister("VfRIB_big", VfRIB_big)
	vfRegister("VfC08_flush_big", VfC08_flush_big)
	vfRegister("VfC07_getRIB_big", VfC07_getRIB_big)
}

// VfC08_flush_big: Flush of a symbolic selection of instances on the large pre-state, then one
// further symbolic operation (the state after Flush must behave like the reference).
func VfC08_flush_big() {
	r, ref := vfNewPair(true)
	g := &vfGen{}
	if !vfBigBuild(r, ref, g) {
		return
	}
	vfReach("pre-built")
	var nis []string
	switch vfInt("flush.sel", 0, 2) {
	case 0:
		nis = []string{"DEFAULT"}
	case 1:
		nis = []string{"VRF-A"}
	case 2:
		nis = []string{"VRF-A", "DEFAULT"}
	}
	err := r.Flush(nis)
	ref.flush(nis)
	ref.compare(r)
	for _, n := range nis {
		a := r.niRIB[n].r.Afts
		vfAssert(len(a.Ipv4Entry)+len(a.Ipv6Entry)+len(a.LabelEntry)+len(a.NextHopGroup)+len(a.NextHop) == 0, "C08:flushed-instance-empty")
	}
	vfAssert(err == nil, "C08:flush-answers-ok-when-everything-was-removed")
	d := g.anyOf("op", 1, 1, 3, []int{vfKNH, vfKNHG})
	vfSubmit(r, ref, d)
	ref.compare(r)
	vfReach("end")
}

// VfC07_getRIB_big: Get of either instance with each table filter on the large pre-state.
func VfC07_getRIB_big() {
	r, ref := vfNewPair(true)
	g := &vfGen{}
	if !vfBigBuild(r, ref, g) {
		return
	}
	vfReach("pre-built")
	typ := vfAFTTypes[vfInt("aft", 0, len(vfAFTTypes)-1)]
	name := vfKnownNI("get")
	got := vfGetCheck(r, ref, name, typ)
	if typ == spb.AFTType_ALL {
		n := 0
		for _, t := range vfAFTTypes[1:] {
			n += len(vfGetCheck(r, ref, name, t))
		}
		vfAssert(n == len(got), "C07:all-is-the-union-of-the-tables")
		vfReach("all")
	}
	vfReach("end")
}

func vfBigAck(r *RIB, ref *vfRef, d *vfOpD, want int) bool {
	if vfSubmit(r, ref, d) != want {
		vfAssert(false, "C01:scale-pre-state-operation-answered-as-specified")
		return false
	}
	return true
}

// vfBigBuild builds the large pre-state in the real RIB and the reference; false if an operation
// was not answered as specified (already reported).
func vfBigBuild(r *RIB, ref *vfRef, g *vfGen) bool {
	u := func(v int) uint64 { return uint64(v) }
	ok := true
	// next-hops
	for i := 1; i <= 12 && ok; i++ {
		ok = vfBigAck(r, ref, &vfOpD{id: g.id(), typ: vfADD, kind: vfKNH, ni: "DEFAULT", idx: u(i), hasBody: true}, vfStAcked)
	}
	for i := 1; i <= 4 && ok; i++ {
		ok = vfBigAck(r, ref, &vfOpD{id: g.id(), typ: vfADD, kind: vfKNH, ni: "VRF-A", idx: u(i), hasBody: true, hasTag: true, tag: "DEFAULT"}, vfStAcked)
	}
	// groups of two members (next-hop i+1 is shared by groups i and i+1: counters above 1)
	for i := 1; i <= 6 && ok; i++ {
		ok = vfBigAck(r, ref, &vfOpD{id: g.id(), typ: vfADD, kind: vfKNHG, ni: "DEFAULT", idx: u(i), hasBody: true,
			members: []vfMember{{idx: u(i), hasW: true, w: u(i)}, {idx: u(i + 1)}}}, vfStAcked)
	}
	for i := 1; i <= 2 && ok; i++ {
		ok = vfBigAck(r, ref, &vfOpD{id: g.id(), typ: vfADD, kind: vfKNHG, ni: "VRF-A", idx: u(i), hasBody: true,
			members: []vfMember{{idx: u(i)}, {idx: u(i + 2)}}, hasBackup: i == 2, backup: 1}, vfStAcked)
	}
	// top-level entries; IPv4 prefixes are symbolic and pairwise distinct
	var pfx []string
	for i := 0; i < 6 && ok; i++ {
		p := vfStrK("big.pfx", "prefix4")
		for _, q := range pfx {
			vfAssume(p != q)
		}
		pfx = append(pfx, p)
		d := &vfOpD{id: g.id(), typ: vfADD, kind: vfKV4, ni: "DEFAULT", pfx: p, hasBody: true, hasNHG: true, nhg: u(i%3 + 1), hasMD: true, md: uint8(i)}
		if i >= 4 {
			// entries of the VRF: one resolving in its own instance, one explicitly in the default instance
			d.ni = "VRF-A"
			d.nhg = u(i - 3)
			if i == 5 {
				d.hasNHGNI, d.nhgNI = true, "DEFAULT"
			}
		}
		ok = vfBigAck(r, ref, d, vfStAcked)
	}
	for i := 0; i < 4 && ok; i++ {
		ok = vfBigAck(r, ref, &vfOpD{id: g.id(), typ: vfADD, kind: vfKMPLS, ni: "DEFAULT", label: u(100 + i), hasBody: true, hasNHG: true, nhg: u(4 + i%3)}, vfStAcked)
	}
	var pfx6 []string
	for i := 0; i < 2 && ok; i++ {
		p := vfStrK("big.pfx6", "prefix6")
		for _, q := range pfx6 {
			vfAssume(p != q)
		}
		pfx6 = append(pfx6, p)
		ok = vfBigAck(r, ref, &vfOpD{id: g.id(), typ: vfADD, kind: vfKV6, ni: "DEFAULT", pfx: p, hasBody: true, hasNHG: true, nhg: 6}, vfStAcked)
	}
	// held operations: six groups waiting for next-hops 50..55, three entries waiting for groups 60..62
	for i := 0; i < 6 && ok; i++ {
		ok = vfBigAck(r, ref, &vfOpD{id: g.id(), typ: vfADD, kind: vfKNHG, ni: "DEFAULT", idx: u(20 + i), hasBody: true,
			members: []vfMember{{idx: u(50 + i)}}}, vfStHeld)
	}
	for i := 0; i < 3 && ok; i++ {
		ok = vfBigAck(r, ref, &vfOpD{id: g.id(), typ: vfADD, kind: vfKMPLS, ni: "VRF-A", label: u(200 + i), hasBody: true, hasNHG: true, nhg: u(60 + i)}, vfStHeld)
	}
	return ok
}

func VfRIB_big() {
	r, ref := vfNewPair(true)
	g := &vfGen{}
	if !vfBigBuild(r, ref, g) {
		return
	}
	ref.compare(r)
	vfReach("pre-built")
	d := g.anyOf("op", 1, 1, 3, nil)
	st := vfSubmit(r, ref, d)
	ref.compare(r)
	switch st {
	case vfStAcked:
		vfReach("acked")
	case vfStFailed:
		vfReach("failed")
	case vfStHeld:
		vfReach("held")
	}
	vfReach("end")
}
