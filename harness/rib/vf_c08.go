//go:build verif

package rib

func init() {
	vfRegister("VfC08_flush_q", VfC08_flush_q)
	vfRegister("VfC08_flush_t", VfC08_flush_t)
	vfRegister("VfC08_flush_qx", VfC08_flush_qx)
}

// vfFlushRun: canonical pre-state (groups may carry backup groups: shared, missing or
// self-referencing ids are all within the symbolic range), then RIB.Flush of a symbolic
// selection of instances.
func vfFlushRun(pre vfPreCfg, fixLow, order bool) { vfFlushRunX(pre, fixLow, false, true, order) }

func vfFlushRunX(pre vfPreCfg, fixLow, splitLow, rich, order bool) { vfFlushRunP(pre, fixLow, splitLow, rich, order, false) }

// vfFlushRunP: post adds three symbolic operations after the Flush - a next-hop ADD, a group ADD and a group
// DELETE in one (symbolic) instance - each judged by the reference: what the Flush left behind (entries of
// other instances that still point into the flushed one, their counters) must still protect / release correctly.
func vfFlushRunP(pre vfPreCfg, fixLow, splitLow, rich, order, post bool) {
	r, ref := vfNewPair(true)
	g := &vfGen{rich: rich, fixLow: fixLow, splitLow: splitLow}
	if order {
		vfMapOrder(true)
	}
	vfCanonical(r, ref, g, pre)
	vfReach("pre-built")
	var nis []string
	switch vfInt("flush.sel", 0, 2) {
	case 0:
		nis = []string{"DEFAULT"}
	case 1:
		nis = []string{"VRF-A"}
	case 2:
		nis = []string{"DEFAULT", "VRF-A"}
	}
	err := r.Flush(nis)
	ref.flush(nis)
	// every entry of the selected instances is gone, the others are intact, counters match what remains
	ref.compare(r)
	for _, n := range nis {
		a := r.niRIB[n].r.Afts
		vfAssert(len(a.Ipv4Entry)+len(a.Ipv6Entry)+len(a.LabelEntry)+len(a.NextHopGroup)+len(a.NextHop) == 0, "C08:flushed-instance-empty")
	}
	vfAssert(err == nil, "C08:flush-answers-ok-when-everything-was-removed")
	if post {
		ni := vfKnownNI("post")
		nh := &vfOpD{id: g.id(), typ: vfADD, kind: vfKNH, ni: ni, idx: vfU64("post.nh"), hasBody: true}
		vfSubmit(r, ref, nh)
		grp := &vfOpD{id: g.id(), typ: vfADD, kind: vfKNHG, ni: ni, idx: vfU64("post.nhg"), hasBody: true, members: []vfMember{{idx: nh.idx}}}
		vfSubmit(r, ref, grp)
		ref.compare(r)
		del := &vfOpD{id: g.id(), typ: vfDELETE, kind: vfKNHG, ni: ni, idx: vfU64("post.del"), hasBody: true}
		if vfSubmit(r, ref, del) == vfStFailed {
			vfReach("post-delete-refused")
		}
		ref.compare(r)
	}
	vfReach("end")
}

func VfC08_flush_q() {
	vfFlushRun(vfPreCfg{nNH: 1, nNHG: 1, nTop: 1, members: 1, topKinds: vfTopQ}, false, false)
}

// flush_qx: a next-hop and a group in each instance, two IPv4 entries in either instance.
func VfC08_flush_qx() {
	vfFlushRunP(vfPreCfg{nNH: 2, nNHG: 2, nTop: 2, members: 1, topKinds: []int{vfKV4}}, false, true, false, false, true)
}

func VfC08_flush_t() {
	vfFlushRun(vfPreCfg{nNH: 1, nNHG: 2, nTop: 1, members: 1, topKinds: vfTopAll}, true, true)
}
