//go:build verif

package rib

func init() {
	vfRegister("VfC08_flush_q", VfC08_flush_q)
	vfRegister("VfC08_flush_t", VfC08_flush_t)
	vfRegister("VfC08_flush_qx", VfC08_flush_qx)
	vfRegister("VfC08_flush_history", VfC08_flush_history)
}

// vfFlushRun: canonical pre-state (groups may carry backup groups: shared, missing or
// self-referencing ids are all within the symbolic range), then RIB.Flush of a symbolic
// selection of instances.
func vfFlushRun(pre vfPreCfg, fixLow, order bool) { vfFlushRunX(pre, fixLow, false, true, order) }

func vfFlushRunX(pre vfPreCfg, fixLow, splitLow, rich, order bool) { vfFlushRunP(pre, fixLow, splitLow, rich, order, false) }

// vfFlushRunP: post adds three symbolic operations after the Flush - a next-hop ADD, a group ADD and a group
// DELETE in one (symbolic) instance - each judged by the reference: what the Flush left behind (entries of
// other instances that still point into the flushed one, their counters) must still protect / release correctly.
func vfFlushRunP(pre vfPreCfg, fixLow, splitLow, rich, order, post bool) {
	r, ref := vfNewPair(true)
	g := &vfGen{rich: rich, fixLow: fixLow, splitLow: splitLow}
	if order {
		vfMapOrder(true)
	}
	vfCanonical(r, ref, g, pre)
	vfReach("pre-built")
	var nis []string
	switch vfInt("flush.sel", 0, 2) {
	case 0:
		nis = []string{"DEFAULT"}
	case 1:
		nis = []string{"VRF-A"}
	case 2:
		nis = []string{"DEFAULT", "VRF-A"}
	}
	// the whole-RIB view is read before and after the Flush (it must never be a stale copy)
	if _, cerr := r.RIBContents(); cerr != nil {
		vfAssert(false, "C01:rib-contents-readable")
	}
	err := r.Flush(nis)
	ref.flush(nis)
	ref.compareContents(r)
	// every entry of the selected instances is gone, the others are intact, counters match what remains
	ref.compare(r)
	for _, n := range nis {
		a := r.niRIB[n].r.Afts
		vfAssert(len(a.Ipv4Entry)+len(a.Ipv6Entry)+len(a.LabelEntry)+len(a.NextHopGroup)+len(a.NextHop) == 0, "C08:flushed-instance-empty")
	}
	vfAssert(err == nil, "C08:flush-answers-ok-when-everything-was-removed")
	if post {
		ni := vfKnownNI("post")
		nh := &vfOpD{id: g.id(), typ: vfADD, kind: vfKNH, ni: ni, idx: vfU64("post.nh"), hasBody: true}
		vfSubmit(r, ref, nh)
		grp := &vfOpD{id: g.id(), typ: vfADD, kind: vfKNHG, ni: ni, idx: vfU64("post.nhg"), hasBody: true, members: []vfMember{{idx: nh.idx}}}
		vfSubmit(r, ref, grp)
		ref.compare(r)
		del := &vfOpD{id: g.id(), typ: vfDELETE, kind: vfKNHG, ni: ni, idx: vfU64("post.del"), hasBody: true}
		if vfSubmit(r, ref, del) == vfStFailed {
			vfReach("post-delete-refused")
		}
		ref.compare(r)
	}
	vfReach("end")
}

// VfC08_flush_history: a fixed five-step shape with symbolic choices - next-hop 1 + group g in DEFAULT, an IPv4 /
// IPv6 / label entry in VRF-A pointing at (DEFAULT, g); Flush of DEFAULT only; then optionally the DELETE of the
// (now dangling) entry while the group is absent; then next-hop and group are programmed again and the group is
// deleted: refused exactly while an installed entry still points at it, accepted otherwise.
func VfC08_flush_history() {
	r, ref := vfNewPair(true)
	g := &vfGen{}
	must := func(d *vfOpD, want int) { vfAssume(vfSubmit(r, ref, d) == want) }
	gid := vfU64("g")
	must(&vfOpD{id: g.id(), typ: vfADD, kind: vfKNH, ni: "DEFAULT", idx: 1, hasBody: true}, vfStAcked)
	must(&vfOpD{id: g.id(), typ: vfADD, kind: vfKNHG, ni: "DEFAULT", idx: gid, hasBody: true, members: []vfMember{{idx: 1}}}, vfStAcked)
	ent := &vfOpD{id: g.id(), typ: vfADD, kind: vfTopAll[vfInt("kind", 0, 2)], ni: "VRF-A", hasBody: true, hasNHG: true, nhg: gid, hasNHGNI: true, nhgNI: "DEFAULT"}
	switch ent.kind {
	case vfKV4:
		ent.pfx = vfStrK("pfx", "prefix4")
	case vfKV6:
		ent.pfx = vfStrK("pfx6", "prefix6")
	default:
		ent.label = 100
	}
	must(ent, vfStAcked)
	vfReach("pre-built")
	vfAssert(r.Flush([]string{"DEFAULT"}) == nil, "C08:flush-answers-ok-when-everything-was-removed")
	ref.flush([]string{"DEFAULT"})
	ref.compare(r)
	if vfBool("delete-referrer-while-group-absent") {
		del := *ent
		del.id, del.typ = g.id(), vfDELETE
		must(&del, vfStAcked)
		vfReach("referrer-deleted")
	}
	must(&vfOpD{id: g.id(), typ: vfADD, kind: vfKNH, ni: "DEFAULT", idx: 1, hasBody: true}, vfStAcked)
	must(&vfOpD{id: g.id(), typ: vfADD, kind: vfKNHG, ni: "DEFAULT", idx: gid, hasBody: true, members: []vfMember{{idx: 1}}}, vfStAcked)
	ref.compare(r)
	if vfSubmit(r, ref, &vfOpD{id: g.id(), typ: vfDELETE, kind: vfKNHG, ni: "DEFAULT", idx: gid, hasBody: true}) == vfStFailed {
		vfReach("post-delete-refused")
	}
	ref.compare(r)
	vfReach("end")
}

func VfC08_flush_q() {
	vfFlushRun(vfPreCfg{nNH: 1, nNHG: 1, nTop: 1, members: 1, topKinds: vfTopQ}, false, false)
}

// flush_qx: a next-hop and a group in each instance, two IPv4 entries in either instance.
func VfC08_flush_qx() {
	vfFlushRunP(vfPreCfg{nNH: 2, nNHG: 2, nTop: 2, members: 1, topKinds: []int{vfKV4}}, false, true, false, false, true)
}

func VfC08_flush_t() {
	vfFlushRun(vfPreCfg{nNH: 1, nNHG: 2, nTop: 1, members: 1, topKinds: vfTopAll}, true, true)
}
