//go:build verif

package fluent

import (
	"testing"

	"github.com/openconfig/gribigo/client"
	"google.golang.org/protobuf/proto"

	aftpb "github.com/openconfig/gribi/v1/proto/gribi_aft"
	spb "github.com/openconfig/gribi/v1/proto/service"
	wpb "github.com/openconfig/ygot/proto/ywrapper"
)

func init() {
	vfRegister("VfC18_ipv4_2", func() { vfC18IPv4(2) })
	vfRegister("VfC18_ipv4_3", func() { vfC18IPv4(3) })
	vfRegister("VfC18_ipv6_2", func() { vfC18IPv6(2) })
	vfRegister("VfC18_label_2", func() { vfC18Label(2) })
	vfRegister("VfC18_label_3", func() { vfC18Label(3) })
	vfRegister("VfC18_nhg_2", func() { vfC18NHG(2) })
	vfRegister("VfC18_nhg_3", func() { vfC18NHG(3) })
	vfRegister("VfC18_nh_2", func() { vfC18NH(2) })
	vfRegister("VfC18_nh_3", func() { vfC18NH(3) })
	vfRegister("VfC18_client_3", func() { vfC18Client(3) })
	vfRegister("VfC18_client_4", func() { vfC18Client(4) })
}

func VfC18_ipv4_2()   { vfC18IPv4(2) }
func VfC18_ipv4_3()   { vfC18IPv4(3) }
func VfC18_ipv6_2()   { vfC18IPv6(2) }
func VfC18_label_2()  { vfC18Label(2) }
func VfC18_label_3()  { vfC18Label(3) }
func VfC18_nhg_2()    { vfC18NHG(2) }
func VfC18_nhg_3()    { vfC18NHG(3) }
func VfC18_nh_2()     { vfC18NH(2) }
func VfC18_nh_3()     { vfC18NH(3) }
func VfC18_client_3() { vfC18Client(3) }
func VfC18_client_4() { vfC18Client(4) }

type vfTB struct {
	testing.TB
	failed bool
}
type vfFatal struct{}

func (t *vfTB) Helper()                      {}
func (t *vfTB) Fatal(args ...any)            { t.failed = true; panic(vfFatal{}) }
func (t *vfTB) Fatalf(f string, args ...any) { t.failed = true; panic(vfFatal{}) }

func vfUV(v uint64) *wpb.UintValue   { return &wpb.UintValue{Value: v} }
func vfSV(v string) *wpb.StringValue { return &wpb.StringValue{Value: v} }

// vfCheckEntry: the emitted operation / entry equal the expected message, and a
// later builder call does not alter the message emitted earlier.
func vfCheckEntry(e GRIBIEntry, wantOp *spb.AFTOperation, mutate func()) {
	got, err := e.OpProto()
	vfAssert(err == nil, "C18:OpProto-succeeds")
	if err != nil {
		return
	}
	vfAssert(proto.Equal(got, wantOp), "C18:operation-contains-exactly-what-was-set")
	ent, err := e.EntryProto()
	vfAssert(err == nil, "C18:EntryProto-succeeds")
	if err == nil {
		wantEnt := &spb.AFTEntry{NetworkInstance: wantOp.NetworkInstance}
		switch t := wantOp.Entry.(type) {
		case *spb.AFTOperation_Ipv4:
			wantEnt.Entry = &spb.AFTEntry_Ipv4{Ipv4: t.Ipv4}
		case *spb.AFTOperation_Ipv6:
			wantEnt.Entry = &spb.AFTEntry_Ipv6{Ipv6: t.Ipv6}
		case *spb.AFTOperation_Mpls:
			wantEnt.Entry = &spb.AFTEntry_Mpls{Mpls: t.Mpls}
		case *spb.AFTOperation_NextHopGroup:
			wantEnt.Entry = &spb.AFTEntry_NextHopGroup{NextHopGroup: t.NextHopGroup}
		case *spb.AFTOperation_NextHop:
			wantEnt.Entry = &spb.AFTEntry_NextHop{NextHop: t.NextHop}
		}
		vfAssert(proto.Equal(ent, wantEnt), "C18:entry-contains-exactly-what-was-set")
	}
	saved := proto.Clone(wantOp).(*spb.AFTOperation)
	mutate()
	vfAssert(proto.Equal(got, saved), "C18:later-builder-calls-do-not-alter-emitted-messages")
}

func vfElec(name string) (lo, hi uint64) { return vfU64(name + ".lo"), vfU64(name + ".hi") }

func vfC18IPv4(L int) {
	b := IPv4Entry()
	want := &aftpb.Afts_Ipv4EntryKey{Ipv4Entry: &aftpb.Afts_Ipv4Entry{}}
	op := &spb.AFTOperation{Entry: &spb.AFTOperation_Ipv4{Ipv4: want}}
	step := func() {
		switch vfInt("m", 0, 5) {
		case 0:
			p := vfStr("prefix")
			b.WithPrefix(p)
			want.Prefix = p
		case 1:
			n := vfStr("ni")
			b.WithNetworkInstance(n)
			op.NetworkInstance = n
		case 2:
			u := vfU64("nhg")
			b.WithNextHopGroup(u)
			want.Ipv4Entry.NextHopGroup = vfUV(u)
		case 3:
			n := vfStr("nhgni")
			b.WithNextHopGroupNetworkInstance(n)
			want.Ipv4Entry.NextHopGroupNetworkInstance = vfSV(n)
		case 4:
			m := []byte{vfU8("md")}
			b.WithMetadata(m)
			want.Ipv4Entry.EntryMetadata = &wpb.BytesValue{Value: []byte{m[0]}}
		case 5:
			lo, hi := vfElec("elec")
			b.WithElectionID(lo, hi)
			op.ElectionId = &spb.Uint128{Low: lo, High: hi}
		}
	}
	for i := 0; i < L; i++ {
		step()
	}
	vfCheckEntry(b, op, step)
	vfReach("end")
}

func vfC18IPv6(L int) {
	b := IPv6Entry()
	want := &aftpb.Afts_Ipv6EntryKey{Ipv6Entry: &aftpb.Afts_Ipv6Entry{}}
	op := &spb.AFTOperation{Entry: &spb.AFTOperation_Ipv6{Ipv6: want}}
	step := func() {
		switch vfInt("m", 0, 5) {
		case 0:
			p := vfStr("prefix")
			b.WithPrefix(p)
			want.Prefix = p
		case 1:
			n := vfStr("ni")
			b.WithNetworkInstance(n)
			op.NetworkInstance = n
		case 2:
			u := vfU64("nhg")
			b.WithNextHopGroup(u)
			want.Ipv6Entry.NextHopGroup = vfUV(u)
		case 3:
			n := vfStr("nhgni")
			b.WithNextHopGroupNetworkInstance(n)
			want.Ipv6Entry.NextHopGroupNetworkInstance = vfSV(n)
		case 4:
			m := []byte{vfU8("md")}
			b.WithMetadata(m)
			want.Ipv6Entry.EntryMetadata = &wpb.BytesValue{Value: []byte{m[0]}}
		case 5:
			lo, hi := vfElec("elec")
			b.WithElectionID(lo, hi)
			op.ElectionId = &spb.Uint128{Low: lo, High: hi}
		}
	}
	for i := 0; i < L; i++ {
		step()
	}
	vfCheckEntry(b, op, step)
	vfReach("end")
}

func vfC18Label(L int) {
	b := LabelEntry()
	want := &aftpb.Afts_LabelEntryKey{LabelEntry: &aftpb.Afts_LabelEntry{}}
	op := &spb.AFTOperation{Entry: &spb.AFTOperation_Mpls{Mpls: want}}
	step := func() {
		switch vfInt("m", 0, 4) {
		case 0:
			l := vfU32("label")
			b.WithLabel(l)
			want.Label = &aftpb.Afts_LabelEntryKey_LabelUint64{LabelUint64: uint64(l)}
		case 1:
			n := vfStr("ni")
			b.WithNetworkInstance(n)
			op.NetworkInstance = n
		case 2:
			u := vfU64("nhg")
			b.WithNextHopGroup(u)
			want.LabelEntry.NextHopGroup = vfUV(u)
		case 3:
			n := vfStr("nhgni")
			b.WithNextHopGroupNetworkInstance(n)
			want.LabelEntry.NextHopGroupNetworkInstance = vfSV(n)
		case 4:
			k := vfInt("popped.n", 0, 2)
			var ls []uint32
			want.LabelEntry.PoppedMplsLabelStack = []*aftpb.Afts_LabelEntry_PoppedMplsLabelStackUnion{}
			for i := 0; i < k; i++ {
				l := vfU32("popped")
				ls = append(ls, l)
				want.LabelEntry.PoppedMplsLabelStack = append(want.LabelEntry.PoppedMplsLabelStack, &aftpb.Afts_LabelEntry_PoppedMplsLabelStackUnion{PoppedMplsLabelStackUint64: uint64(l)})
			}
			b.WithPoppedLabelStack(ls...)
		}
	}
	for i := 0; i < L; i++ {
		step()
	}
	vfCheckEntry(b, op, step)
	vfReach("end")
}

func vfC18NHG(L int) {
	b := NextHopGroupEntry()
	want := &aftpb.Afts_NextHopGroupKey{NextHopGroup: &aftpb.Afts_NextHopGroup{}}
	op := &spb.AFTOperation{Entry: &spb.AFTOperation_NextHopGroup{NextHopGroup: want}}
	step := func() {
		switch vfInt("m", 0, 4) {
		case 0:
			i := vfU64("id")
			b.WithID(i)
			want.Id = i
		case 1:
			n := vfStr("ni")
			b.WithNetworkInstance(n)
			op.NetworkInstance = n
		case 2:
			u := vfU64("backup")
			b.WithBackupNHG(u)
			want.NextHopGroup.BackupNextHopGroup = vfUV(u)
		case 3:
			i, w := vfU64("member"), vfU64("weight")
			b.AddNextHop(i, w)
			want.NextHopGroup.NextHop = append(want.NextHopGroup.NextHop, &aftpb.Afts_NextHopGroup_NextHopKey{Index: i, NextHop: &aftpb.Afts_NextHopGroup_NextHop{Weight: vfUV(w)}})
		case 4:
			lo, hi := vfElec("elec")
			b.WithElectionID(lo, hi)
			op.ElectionId = &spb.Uint128{Low: lo, High: hi}
		}
	}
	for i := 0; i < L; i++ {
		step()
	}
	vfCheckEntry(b, op, step)
	vfReach("end")
}

func vfC18NH(L int) {
	b := NextHopEntry()
	want := &aftpb.Afts_NextHopKey{}
	op := &spb.AFTOperation{Entry: &spb.AFTOperation_NextHop{NextHop: want}}
	body := func() *aftpb.Afts_NextHop {
		if want.NextHop == nil {
			want.NextHop = &aftpb.Afts_NextHop{}
		}
		return want.NextHop
	}
	step := func() {
		switch vfInt("m", 0, 14) {
		case 0:
			i := vfU64("index")
			b.WithIndex(i)
			want.Index = i
		case 1:
			n := vfStr("ni")
			b.WithNetworkInstance(n)
			op.NetworkInstance = n
		case 2:
			a := vfStr("ip")
			b.WithIPAddress(a)
			body().IpAddress = vfSV(a)
		case 3:
			a := vfStr("intf")
			b.WithInterfaceRef(a)
			body().InterfaceRef = &aftpb.Afts_NextHop_InterfaceRef{Interface: vfSV(a)}
		case 4:
			a, s := vfStr("intf"), vfU64("subintf")
			b.WithSubinterfaceRef(a, s)
			body().InterfaceRef = &aftpb.Afts_NextHop_InterfaceRef{Interface: vfSV(a), Subinterface: vfUV(s)}
		case 5:
			a := vfStr("mac")
			b.WithMacAddress(a)
			body().MacAddress = vfSV(a)
		case 6:
			s, d := vfStr("ipip.src"), vfStr("ipip.dst")
			b.WithIPinIP(s, d)
			body().IpInIp = &aftpb.Afts_NextHop_IpInIp{SrcIp: vfSV(s), DstIp: vfSV(d)}
		case 7:
			a := vfStr("nhni")
			b.WithNextHopNetworkInstance(a)
			body().NetworkInstance = vfSV(a)
		case 8:
			b.WithPopTopLabel()
			body().PopTopLabel = &wpb.BoolValue{Value: true}
		case 9:
			k := vfInt("pushed.n", 0, 2)
			var ls []uint32
			body().PushedMplsLabelStack = []*aftpb.Afts_NextHop_PushedMplsLabelStackUnion{}
			for i := 0; i < k; i++ {
				l := vfU32("pushed")
				ls = append(ls, l)
				want.NextHop.PushedMplsLabelStack = append(want.NextHop.PushedMplsLabelStack, &aftpb.Afts_NextHop_PushedMplsLabelStackUnion{PushedMplsLabelStackUint64: uint64(l)})
			}
			b.WithPushedLabelStack(ls...)
		case 10:
			l := vfU64("encap.label")
			b.AddEncapHeader(MPLSEncapHeader().WithLabels(l))
			nb := body()
			nb.EncapHeader = append(nb.EncapHeader, &aftpb.Afts_NextHop_EncapHeaderKey{Index: uint64(len(nb.EncapHeader)) + 1,
				EncapHeader: &aftpb.Afts_NextHop_EncapHeader{Type: encapMap[MPLS], Mpls: &aftpb.Afts_NextHop_EncapHeader_Mpls{
					MplsLabelStack: []*aftpb.Afts_NextHop_EncapHeader_Mpls_MplsLabelStackUnion{{MplsLabelStackUint64: l}}}}})
		case 11:
			src, dst, port := vfStr("udp.src"), vfStr("udp.dst"), vfU64("udp.port")
			b.AddEncapHeader(UDPV6EncapHeader().WithSrcIP(src).WithDstIP(dst).WithDstUDPPort(port))
			nb := body()
			nb.EncapHeader = append(nb.EncapHeader, &aftpb.Afts_NextHop_EncapHeaderKey{Index: uint64(len(nb.EncapHeader)) + 1,
				EncapHeader: &aftpb.Afts_NextHop_EncapHeader{Type: encapMap[UDPV6], UdpV6: &aftpb.Afts_NextHop_EncapHeader_UdpV6{
					SrcIp: vfSV(src), DstIp: vfSV(dst), DstUdpPort: vfUV(port)}}})
		case 12:
			h := Header(vfInt("decap", 1, 3))
			b.WithDecapsulateHeader(h)
			body().DecapsulateHeader = encapMap[h]
		case 13:
			h := Header(vfInt("encap", 1, 3))
			b.WithEncapsulateHeader(h)
			body().EncapsulateHeader = encapMap[h]
		case 14:
			lo, hi := vfElec("elec")
			b.WithElectionID(lo, hi)
			op.ElectionId = &spb.Uint128{Low: lo, High: hi}
		}
	}
	for i := 0; i < L; i++ {
		step()
	}
	vfCheckEntry(b, op, step)
	vfReach("end")
}

// vfC18Client: operation ids, operation type and election-id stamping over a
// sequence of AddEntry / ReplaceEntry / DeleteEntry / UpdateElectionID calls.
func vfC18Client(K int) {
	g := NewClient()
	mode := vfInt("mode", 0, 2)
	conn := g.Connection()
	switch mode {
	case 1:
		conn.WithRedundancyMode(AllPrimaryClients)
	case 2:
		conn.WithRedundancyMode(ElectedPrimaryClient)
	}
	hasCur := false
	var curLo, curHi uint64
	if vfBool("initial-election-id") {
		curLo, curHi = vfElec("initial")
		conn.WithInitialElectionID(curLo, curHi)
		hasCur = true
	}
	c, err := client.New()
	if err != nil {
		panic(err)
	}
	g.c = c
	t := &vfTB{}
	// the application may keep one Modify() handle across calls or ask for a fresh one each time
	reuse := vfBool("reuse-modify-handle")
	handle := g.Modify()
	mod := func() *gRIBIModify {
		if reuse {
			return handle
		}
		return g.Modify()
	}
	type exp struct {
		typ            spb.AFTOperation_Operation
		idx            uint64
		hasE           bool
		eLo, eHi       uint64
	}
	var want []exp
	for k := 0; k < K; k++ {
		call := vfInt("call", 0, 3)
		if call == 3 {
			curLo, curHi = vfElec("update")
			hasCur = true
			mod().UpdateElectionID(t, curLo, curHi)
			continue
		}
		n := vfInt("entries", 1, 2)
		var es []GRIBIEntry
		for i := 0; i < n; i++ {
			idx := vfU64("idx")
			e := NextHopEntry().WithNetworkInstance("DEFAULT").WithIndex(idx)
			x := exp{idx: idx}
			if vfBool("entry-own-election-id") {
				x.eLo, x.eHi = vfElec("own")
				x.hasE = true
				e.WithElectionID(x.eLo, x.eHi)
			} else if mode == 2 && hasCur {
				x.hasE, x.eLo, x.eHi = true, curLo, curHi
			}
			switch call {
			case 0:
				x.typ = spb.AFTOperation_ADD
			case 1:
				x.typ = spb.AFTOperation_REPLACE
			case 2:
				x.typ = spb.AFTOperation_DELETE
			}
			want = append(want, x)
			es = append(es, e)
		}
		switch call {
		case 0:
			mod().AddEntry(t, es...)
		case 1:
			mod().ReplaceEntry(t, es...)
		case 2:
			mod().DeleteEntry(t, es...)
		}
	}
	vfAssert(!t.failed, "C18:queueing-succeeds")
	pend, err := c.Pending()
	vfAssert(err == nil, "C18:pending-readable")
	var ops []*spb.AFTOperation
	for _, p := range pend {
		if po, ok := p.(*client.PendingOp); ok {
			ops = append(ops, po.Op)
		}
	}
	vfAssert(len(ops) == len(want), "C18:one-operation-per-entry")
	if len(ops) == len(want) {
		for i, o := range ops { // Pending() returns the operations ordered by id
			x := want[i]
			vfAssert(o.Id == uint64(i+1), "C18:ids-distinct-strictly-increasing-from-1")
			vfAssert(o.Op == x.typ, "C18:operation-type-as-requested")
			vfAssert(o.GetNextHop().GetIndex() == x.idx, "C18:operation-carries-its-entry")
			if x.hasE {
				vfAssert(o.ElectionId != nil, "C18:election-id-stamped")
				if o.ElectionId != nil {
					vfAssert(vfAnd(o.ElectionId.Low == x.eLo, o.ElectionId.High == x.eHi), "C18:election-id-is-own-or-most-recently-set")
				}
			} else {
				vfAssert(o.ElectionId == nil, "C18:no-election-id-outside-elected-primary-mode")
			}
		}
	}
	vfReach("end")
}
