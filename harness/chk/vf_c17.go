//go:build verif

package chk

import (
	"errors"
	"testing"

	"github.com/openconfig/gribigo/client"
	"github.com/openconfig/gribigo/constants"
	"github.com/openconfig/gribigo/fluent"
	"google.golang.org/grpc/codes"
	"google.golang.org/grpc/status"

	aftpb "github.com/openconfig/gribi/v1/proto/gribi_aft"
	spb "github.com/openconfig/gribi/v1/proto/service"
)

func init() {
	vfRegister("VfC17_hasResult", VfC17_hasResult)
	vfRegister("VfC17_hasResultSession", VfC17_hasResultSession)
	vfRegister("VfC17_hasResultsCache", VfC17_hasResultsCache)
	vfRegister("VfC17_hasResultsCache2", VfC17_hasResultsCache2)
	vfRegister("VfC17_getResponseHasEntries", VfC17_getResponseHasEntries)
	vfRegister("VfC17_getResponseLong", VfC17_getResponseLong)
	vfRegister("VfC17_errorCounts", VfC17_errorCounts)
	vfRegister("VfC17_recvStatus", VfC17_recvStatus)
	vfRegister("VfC17_recvStatusT", VfC17_recvStatusT)
}

// vfTB captures fatal failures instead of ending the test.
type vfTB struct {
	testing.TB
	failed bool
}

type vfFatal struct{}

func (t *vfTB) Helper()                         {}
func (t *vfTB) Fatal(args ...any)               { t.failed = true; panic(vfFatal{}) }
func (t *vfTB) Fatalf(f string, args ...any)    { t.failed = true; panic(vfFatal{}) }
func (t *vfTB) Errorf(f string, args ...any)    { t.failed = true }
func (t *vfTB) Logf(f string, args ...any)      {}
func (t *vfTB) Log(args ...any)                 {}

// vfFails runs a checker and reports whether it signalled a fatal test failure.
func vfFails(f func(t testing.TB)) (failed bool) {
	tb := &vfTB{}
	defer func() {
		if r := recover(); r != nil {
			if _, ok := r.(vfFatal); !ok {
				panic(r)
			}
			failed = true
		}
	}()
	f(tb)
	return tb.failed
}

// ---- OpResult descriptors ----

type vfRes struct {
	id        uint64
	status    spb.AFTResult_Status
	hasDet    bool
	typ       constants.OpType
	kind      int // 0 nhg, 1 nh, 2 ipv4, 3 ipv6, 4 mpls
	num       uint64
	pfx       string
	serverErr string
	// session-level results: 0 = field absent, 1 = present with the zero value (status OK / election id 0,0),
	// 2 = present with another value
	sess       int
	sessStatus spb.SessionParametersResult_Status
	elec       int
	elecHi     uint64
	elecLo     uint64
}

func (d *vfRes) result() *client.OpResult {
	r := &client.OpResult{OperationID: d.id, ProgrammingResult: d.status, ServerError: d.serverErr}
	if d.hasDet {
		det := &client.OpDetailsResults{Type: d.typ}
		switch d.kind {
		case 0:
			det.NextHopGroupID = d.num
		case 1:
			det.NextHopIndex = d.num
		case 2:
			det.IPv4Prefix = d.pfx
		case 3:
			det.IPv6Prefix = d.pfx
		case 4:
			det.MPLSLabel = d.num
		}
		r.Details = det
	}
	if d.sess > 0 {
		r.SessionParameters = &spb.SessionParametersResult{Status: d.sessStatus}
	}
	if d.elec > 0 {
		r.CurrentServerElectionID = &spb.Uint128{High: d.elecHi, Low: d.elecLo}
	}
	return r
}

// vfSymResS: a session-level result (no operation details): optional session-parameters result and optional
// election id, each absent / present with its zero value / present with another value.
func vfSymResS(name string) *vfRes {
	d := &vfRes{id: vfU64(name + ".id")}
	d.status = spb.AFTResult_Status(vfIte32(vfBool(name+".programmed"), uint32(spb.AFTResult_RIB_PROGRAMMED), uint32(spb.AFTResult_UNSET)))
	d.serverErr = vfIteStr(vfBool(name+".serverError"), "failed", "")
	d.sess = vfInt(name+".sess", 0, 2)
	if d.sess == 2 {
		d.sessStatus = spb.SessionParametersResult_Status(1)
	}
	d.elec = vfInt(name+".elec", 0, 2)
	if d.elec == 2 {
		d.elecHi, d.elecLo = vfU64(name+".elec.hi"), vfU64(name+".elec.lo")
	}
	return d
}

func vfSymRes(name string, kinds []int) *vfRes {
	d := &vfRes{id: vfU64(name + ".id")}
	// status, server error and operation type are symbolic values (no case split)
	d.status = spb.AFTResult_Status(vfIte32(vfBool(name+".programmed"), uint32(spb.AFTResult_RIB_PROGRAMMED), uint32(spb.AFTResult_FAILED)))
	d.serverErr = vfIteStr(vfBool(name+".serverError"), "failed", "")
	d.hasDet = vfBool(name + ".hasDetails")
	if d.hasDet {
		d.typ = constants.OpType(vfIte64(vfBool(name+".isDelete"), uint64(constants.Delete), uint64(constants.Add)))
		d.kind = kinds[vfInt(name+".kind", 0, len(kinds)-1)]
		switch d.kind {
		case 2:
			d.pfx = vfStrK(name+".pfx", "prefix4")
		case 3:
			d.pfx = vfStrK(name+".pfx6", "prefix6")
		default:
			d.num = vfU64(name + ".num")
			vfAssume(d.num != 0)
		}
	}
	return d
}

// vfMatches: does result r satisfy wanted w under the documented ignore options?
func vfMatches(r, w *vfRes, ignoreID, includeServerErr bool) bool {
	ok := r.status == w.status
	if !ignoreID {
		ok = vfAnd(ok, r.id == w.id)
	}
	if includeServerErr {
		ok = vfAnd(ok, r.serverErr == w.serverErr)
	}
	if (r.sess > 0) != (w.sess > 0) || (r.elec > 0) != (w.elec > 0) {
		return false // a message field that is present never equals one that is absent
	}
	if w.sess > 0 {
		ok = vfAnd(ok, r.sessStatus == w.sessStatus)
	}
	if w.elec > 0 {
		ok = vfAnd(ok, vfAnd(r.elecHi == w.elecHi, r.elecLo == w.elecLo))
	}
	if w.hasDet {
		if !r.hasDet || r.kind != w.kind {
			return false
		}
		ok = vfAnd(ok, vfAnd(r.typ == w.typ, vfAnd(r.num == w.num, r.pfx == w.pfx)))
	}
	return ok
}

func vfOptions() (opts []resultOpt, ignoreID, includeSE bool) {
	if vfBool("opt.ignoreOperationID") {
		ignoreID = true
		opts = append(opts, IgnoreOperationID())
	}
	if vfBool("opt.includeServerError") {
		includeSE = true
		opts = append(opts, IncludeServerError())
	}
	return
}

var vfAllKinds = []int{0, 1, 2, 3, 4}

// VfC17_hasResult: HasResult fails exactly when no result matches.
func VfC17_hasResult() {
	n := vfInt("n", 0, 2)
	var ds []*vfRes
	var res []*client.OpResult
	for i := 0; i < n; i++ {
		d := vfSymRes("r", vfAllKinds)
		ds = append(ds, d)
		res = append(res, d.result())
	}
	w := vfSymRes("want", vfAllKinds)
	opts, ignoreID, includeSE := vfOptions()
	failed := vfFails(func(t testing.TB) { HasResult(t, res, w.result(), opts...) })
	present := false
	for _, d := range ds {
		present = vfOr(present, vfMatches(d, w, ignoreID, includeSE))
	}
	vfAssert(failed == !present, "C17:HasResult-fails-iff-wanted-result-absent")
	vfReach("end")
}

// VfC17_hasResultSession: session-level results (session-parameters result, election id) - absent, present with
// the zero value, present with another value - on the wanted result and on 0-1 received results: HasResult fails
// exactly when no result matches, and the cached checker never passes where it fails.
func VfC17_hasResultSession() {
	n := vfInt("n", 0, 1)
	var ds []*vfRes
	var res []*client.OpResult
	for i := 0; i < n; i++ {
		d := vfSymResS("r")
		ds = append(ds, d)
		res = append(res, d.result())
	}
	w := vfSymResS("want")
	opts, ignoreID, includeSE := vfOptions()
	failed := vfFails(func(t testing.TB) { HasResult(t, res, w.result(), opts...) })
	present := false
	for _, d := range ds {
		present = vfOr(present, vfMatches(d, w, ignoreID, includeSE))
	}
	vfAssert(failed == !present, "C17:HasResult-fails-iff-wanted-result-absent")
	if !ignoreID {
		cacheFailed := vfFails(func(t testing.TB) { HasResultsCache(t, res, []*client.OpResult{w.result()}, opts...) })
		vfAssert(vfImplies(!cacheFailed, present), "C17:HasResultsCache-never-passes-for-an-absent-result")
	}
	vfReach("end")
}

// VfC17_hasResultsCache: the cached checker never passes where the plain one
// fails, and agrees with it when result keys are unique.
func VfC17_hasResultsCache() {
	n := vfInt("n", 0, 2)
	var ds []*vfRes
	var res []*client.OpResult
	for i := 0; i < n; i++ {
		d := vfSymRes("r", vfAllKinds)
		ds = append(ds, d)
		res = append(res, d.result())
	}
	w := vfSymRes("want", vfAllKinds)
	opts, ignoreID, includeSE := vfOptions()
	if ignoreID {
		// documented precondition of the cached checker with IgnoreOperationID: wants carry details
		vfAssume(w.hasDet)
	}
	cacheFailed := vfFails(func(t testing.TB) { HasResultsCache(t, res, []*client.OpResult{w.result()}, opts...) })
	present := false
	for _, d := range ds {
		present = vfOr(present, vfMatches(d, w, ignoreID, includeSE))
	}
	vfAssert(vfImplies(!cacheFailed, present), "C17:HasResultsCache-never-passes-for-an-absent-result")
	// unique keys: operation ids (and, when ids are ignored, the per-kind keys) are pairwise distinct
	unique := true
	if n == 2 {
		unique = ds[0].id != ds[1].id
		if ignoreID {
			unique = vfNot(vfAnd(vfAnd(ds[0].hasDet, ds[1].hasDet), vfAnd(ds[0].kind == ds[1].kind, vfAnd(ds[0].num == ds[1].num, ds[0].pfx == ds[1].pfx))))
		}
	}
	vfAssert(vfImplies(vfAnd(unique, present), !cacheFailed), "C17:HasResultsCache-agrees-with-HasResult-on-unique-keys")
	vfReach("end")
}

// VfC17_hasResultsCache2: TWO wanted results (of any shapes: with / without details, any kinds) against 0-1
// results: the cached checker passes only if EVERY want is present (each judged by its own fields), and
// passes when all are present and keys are unique.
func VfC17_hasResultsCache2() {
	n := vfInt("n", 0, 1)
	var ds []*vfRes
	var res []*client.OpResult
	for i := 0; i < n; i++ {
		d := vfSymRes("r", vfAllKinds)
		ds = append(ds, d)
		res = append(res, d.result())
	}
	ws := []*vfRes{vfSymRes("want", vfAllKinds), vfSymRes("want", vfAllKinds)}
	opts, ignoreID, includeSE := vfOptions()
	if ignoreID {
		vfAssume(vfAnd(ws[0].hasDet, ws[1].hasDet))
	}
	cacheFailed := vfFails(func(t testing.TB) {
		HasResultsCache(t, res, []*client.OpResult{ws[0].result(), ws[1].result()}, opts...)
	})
	all := true
	for _, w := range ws {
		present := false
		for _, d := range ds {
			present = vfOr(present, vfMatches(d, w, ignoreID, includeSE))
		}
		all = vfAnd(all, present)
	}
	vfAssert(vfImplies(!cacheFailed, all), "C17:HasResultsCache-never-passes-for-an-absent-result")
	vfAssert(vfImplies(all, !cacheFailed), "C17:HasResultsCache-agrees-with-HasResult-on-unique-keys")
	vfReach("end")
}

// ---- Get responses ----

type vfEnt struct {
	ni   string
	kind int // 0 nhg, 1 nh, 2 ipv4, 3 ipv6, 4 mpls
	num  uint64
	pfx  string
}

func vfSymEnt(name string, want bool) *vfEnt {
	maxKind := 5 // responses may also carry an MPLS entry keyed by the enumerated label arm (kind 5)
	if want {
		maxKind = 4
	}
	e := &vfEnt{ni: vfStrK(name+".ni", "ni"), kind: vfInt(name+".kind", 0, maxKind)}
	vfAssume(e.ni != "")
	switch e.kind {
	case 2:
		e.pfx = vfStrK(name+".pfx", "prefix4")
	case 3:
		e.pfx = vfStrK(name+".pfx6", "prefix6")
	case 4:
		e.num = uint64(vfU32(name + ".label")) // any label, including 0
	case 5:
	default:
		e.num = vfU64(name + ".num")
		vfAssume(e.num != 0)
	}
	return e
}

func (e *vfEnt) aftEntry() *spb.AFTEntry {
	a := &spb.AFTEntry{NetworkInstance: e.ni}
	switch e.kind {
	case 0:
		a.Entry = &spb.AFTEntry_NextHopGroup{NextHopGroup: &aftpb.Afts_NextHopGroupKey{Id: e.num, NextHopGroup: &aftpb.Afts_NextHopGroup{}}}
	case 1:
		a.Entry = &spb.AFTEntry_NextHop{NextHop: &aftpb.Afts_NextHopKey{Index: e.num, NextHop: &aftpb.Afts_NextHop{}}}
	case 2:
		a.Entry = &spb.AFTEntry_Ipv4{Ipv4: &aftpb.Afts_Ipv4EntryKey{Prefix: e.pfx, Ipv4Entry: &aftpb.Afts_Ipv4Entry{}}}
	case 3:
		a.Entry = &spb.AFTEntry_Ipv6{Ipv6: &aftpb.Afts_Ipv6EntryKey{Prefix: e.pfx, Ipv6Entry: &aftpb.Afts_Ipv6Entry{}}}
	case 4:
		a.Entry = &spb.AFTEntry_Mpls{Mpls: &aftpb.Afts_LabelEntryKey{Label: &aftpb.Afts_LabelEntryKey_LabelUint64{LabelUint64: e.num}, LabelEntry: &aftpb.Afts_LabelEntry{}}}
	case 5:
		a.Entry = &spb.AFTEntry_Mpls{Mpls: &aftpb.Afts_LabelEntryKey{Label: &aftpb.Afts_LabelEntryKey_LabelOpenconfigmplstypesmplslabelenum{}, LabelEntry: &aftpb.Afts_LabelEntry{}}}
	}
	return a
}

func (e *vfEnt) want() fluent.GRIBIEntry {
	switch e.kind {
	case 0:
		return fluent.NextHopGroupEntry().WithNetworkInstance(e.ni).WithID(e.num)
	case 1:
		return fluent.NextHopEntry().WithNetworkInstance(e.ni).WithIndex(e.num)
	case 2:
		return fluent.IPv4Entry().WithNetworkInstance(e.ni).WithPrefix(e.pfx)
	case 3:
		return fluent.IPv6Entry().WithNetworkInstance(e.ni).WithPrefix(e.pfx)
	}
	return fluent.LabelEntry().WithNetworkInstance(e.ni).WithLabel(uint32(e.num))
}

// VfC17_getResponseHasEntries: fails exactly when the wanted entry (kind, key,
// network instance) is absent from the response.
func VfC17_getResponseHasEntries() {
	n := vfInt("n", 0, 2)
	resp := &spb.GetResponse{}
	var es []*vfEnt
	for i := 0; i < n; i++ {
		e := vfSymEnt("e", false)
		es = append(es, e)
		resp.Entry = append(resp.Entry, e.aftEntry())
	}
	w := vfSymEnt("want", true)
	failed := vfFails(func(t testing.TB) { GetResponseHasEntries(t, resp, w.want()) })
	present := false
	for _, e := range es {
		if e.kind == w.kind {
			present = vfOr(present, vfAnd(e.ni == w.ni, vfAnd(e.num == w.num, e.pfx == w.pfx)))
		}
	}
	vfAssert(failed == !present, "C17:GetResponseHasEntries-fails-iff-wanted-entry-absent")
	vfReach("end")
}

// VfC17_getResponseLong: a response of FOUR next-hop entries spread over two network instances in every order
// (grouped, interleaved, revisited - the checker's per-instance indexing must not depend on the order), symbolic
// indices; one wanted next-hop (symbolic instance and index).
func VfC17_getResponseLong() {
	names := []string{"NI-A", "NI-B"}
	resp := &spb.GetResponse{}
	var es []*vfEnt
	for i := 0; i < 4; i++ {
		e := &vfEnt{kind: 1, ni: names[vfInt("e.ni", 0, 1)], num: vfU64("e.num")}
		vfAssume(e.num != 0)
		es = append(es, e)
		resp.Entry = append(resp.Entry, e.aftEntry())
	}
	w := &vfEnt{kind: 1, ni: names[vfInt("want.ni", 0, 1)], num: vfU64("want.num")}
	vfAssume(w.num != 0)
	failed := vfFails(func(t testing.TB) { GetResponseHasEntries(t, resp, w.want()) })
	present := false
	for _, e := range es {
		present = vfOr(present, vfAnd(e.ni == w.ni, e.num == w.num))
	}
	vfAssert(failed == !present, "C17:GetResponseHasEntries-fails-iff-wanted-entry-absent")
	vfReach("end")
}

// VfC17_errorCounts: HasNSendErrors / HasNRecvErrors.
func VfC17_errorCounts() {
	var err error
	ns, nr := vfInt("sendErrs", 0, 2), vfInt("recvErrs", 0, 2)
	kind := vfInt("err.kind", 0, 2) // nil, *ClientErr, other error
	switch kind {
	case 1:
		ce := &client.ClientErr{}
		for i := 0; i < ns; i++ {
			ce.Send = append(ce.Send, errors.New("send"))
		}
		for i := 0; i < nr; i++ {
			ce.Recv = append(ce.Recv, errors.New("recv"))
		}
		err = ce
	case 2:
		err = errors.New("some other error")
	}
	count := vfInt("count", 0, 3)
	sFailed := vfFails(func(t testing.TB) { HasNSendErrors(t, err, count) })
	rFailed := vfFails(func(t testing.TB) { HasNRecvErrors(t, err, count) })
	switch kind {
	case 0:
		vfAssert(sFailed == (count != 0), "C17:HasNSendErrors-nil-error-means-zero")
		vfAssert(rFailed == (count != 0), "C17:HasNRecvErrors-nil-error-means-zero")
	case 1:
		vfAssert(sFailed == (count != ns), "C17:HasNSendErrors-fails-iff-count-differs")
		vfAssert(rFailed == (count != nr), "C17:HasNRecvErrors-fails-iff-count-differs")
	case 2:
		vfAssert(sFailed && rFailed, "C17:non-client-error-fails")
	}
	vfReach("end")
}

// ---- HasRecvClientErrorWithStatus ----

type vfStD struct {
	isStatus bool
	code     uint32
	msg      string
	hasDet   bool
	reason   int32
}

func (d *vfStD) status() *status.Status {
	s := status.New(codes.Code(d.code), d.msg)
	if d.hasDet {
		ns, err := s.WithDetails(&spb.ModifyRPCErrorDetails{Reason: spb.ModifyRPCErrorDetails_Reason(d.reason)})
		if err != nil {
			panic(err)
		}
		s = ns
	}
	return s
}

var vfStRich = false

func vfSymSt(name string, mayBePlain bool) *vfStD {
	d := &vfStD{isStatus: true}
	if mayBePlain && vfBool(name+".plain-error") {
		d.isStatus = false
		return d
	}
	// a non-OK code: FailedPrecondition, Unimplemented, Unknown, InvalidArgument, Internal
	// (Unknown is what the grpc library makes of an error that is not a status: a checker must not confuse the two)
	nc, nm, nr := 2, 1, 1
	if vfStRich {
		nc, nm, nr = 4, 1, 1
	}
	d.code = []uint32{uint32(codes.FailedPrecondition), uint32(codes.Unimplemented), uint32(codes.Unknown), uint32(codes.InvalidArgument), uint32(codes.Internal)}[vfInt(name+".code", 0, nc)]
	d.msg = []string{"", "m1", "m2"}[vfInt(name+".msg", 0, nm)]
	d.hasDet = vfBool(name + ".hasDetails")
	if d.hasDet {
		d.reason = int32(vfInt(name+".reason", 0, nr))
	}
	return d
}

// VfC17_recvStatus: HasRecvClientErrorWithStatus passes exactly when some receive
// error carries the wanted status under the AllowUnimplemented / IgnoreDetails options.
func VfC17_recvStatus()  { vfRecvStatus(1) }
func VfC17_recvStatusT() { vfStRich = true; vfRecvStatus(2) }

func vfRecvStatus(maxErrs int) {
	n := vfInt("n", 0, maxErrs)
	ce := &client.ClientErr{}
	var es []*vfStD
	for i := 0; i < n; i++ {
		e := vfSymSt("e", true)
		es = append(es, e)
		if e.isStatus {
			ce.Recv = append(ce.Recv, e.status().Err())
		} else {
			ce.Recv = append(ce.Recv, errors.New("plain"))
		}
	}
	w := vfSymSt("want", false)
	var opts []ErrorOpt
	allowUnimpl, ignoreDets := vfBool("opt.allowUnimplemented"), vfBool("opt.ignoreDetails")
	if allowUnimpl {
		opts = append(opts, AllowUnimplemented())
	}
	if ignoreDets {
		opts = append(opts, IgnoreDetails())
	}
	var err error = ce
	notClientErr := vfBool("err.not-a-client-error")
	if notClientErr {
		err = errors.New("other")
	}
	failed := vfFails(func(t testing.TB) { HasRecvClientErrorWithStatus(t, err, w.status(), opts...) })
	if notClientErr {
		vfAssert(failed, "C17:HasRecvClientErrorWithStatus-fails-for-non-client-error")
		vfReach("end")
		return
	}
	present := false
	for _, e := range es {
		if !e.isStatus {
			continue
		}
		codeEq := e.code == w.code
		msgOK := w.msg == "" || e.msg == w.msg
		detEq := e.hasDet == w.hasDet && (!e.hasDet || e.reason == w.reason)
		if (codeEq && msgOK && detEq) || (allowUnimpl && e.code == uint32(codes.Unimplemented)) || (ignoreDets && codeEq && msgOK) {
			present = true
		}
	}
	vfAssert(failed == !present, "C17:HasRecvClientErrorWithStatus-fails-iff-status-absent")
	vfReach("end")
}
