//go:build verif

package server

import (
	"reflect"

	"github.com/openconfig/gribigo/aft"
	"github.com/openconfig/gribigo/rib"

	aftpb "github.com/openconfig/gribi/v1/proto/gribi_aft"
	enums "github.com/openconfig/gribi/v1/proto/gribi_aft/enums"
	spb "github.com/openconfig/gribi/v1/proto/service"
	wpb "github.com/openconfig/ygot/proto/ywrapper"
)

func init() { vfRegister("VfC12_malformed", VfC12_malformed) }

type vfRIBSnap struct {
	ribs map[string]*aft.RIB
	refs map[string]map[string]map[uint64]uint64
	held int
}

func vfSnap(r *rib.RIB) vfRIBSnap {
	c, err := r.RIBContents()
	if err != nil {
		panic(err)
	}
	return vfRIBSnap{ribs: c, refs: r.VfRefCounts(), held: len(r.VfPendingIDs())}
}

func vfSnapEqual(a, b vfRIBSnap) bool {
	return vfAnd(a.held == b.held, vfAnd(reflect.DeepEqual(a.ribs, b.ribs), reflect.DeepEqual(a.refs, b.refs)))
}

// vfPrimaryServer: a server whose session "A" is the elected primary with id (1,1),
// two network instances, and a small installed chain in the default instance.
func vfPrimaryServer() (*Server, *spb.Uint128) {
	s := &Server{cs: map[string]*clientState{}, masterRIB: rib.New(DefaultNetworkInstanceName)}
	if err := s.masterRIB.AddNetworkInstance("VRF-A"); err != nil {
		panic(err)
	}
	id := &spb.Uint128{High: 1, Low: 1}
	s.cs["A"] = &clientState{params: &clientParams{ExpectElecID: true, Persist: true}, setParams: true, lastElecID: id}
	s.curElecID, s.curMaster = id, "A"
	seed := []*spb.AFTOperation{
		vfNHOp(901, DefaultNetworkInstanceName, 1, id),
		{Id: 902, NetworkInstance: DefaultNetworkInstanceName, Op: spb.AFTOperation_ADD, ElectionId: id,
			Entry: &spb.AFTOperation_NextHopGroup{NextHopGroup: &aftpb.Afts_NextHopGroupKey{Id: 1, NextHopGroup: &aftpb.Afts_NextHopGroup{
				NextHop: []*aftpb.Afts_NextHopGroup_NextHopKey{{Index: 1, NextHop: &aftpb.Afts_NextHopGroup_NextHop{}}}}}}},
		{Id: 903, NetworkInstance: DefaultNetworkInstanceName, Op: spb.AFTOperation_ADD, ElectionId: id,
			Entry: &spb.AFTOperation_Ipv4{Ipv4: &aftpb.Afts_Ipv4EntryKey{Prefix: "1.1.1.1/32", Ipv4Entry: &aftpb.Afts_Ipv4Entry{NextHopGroup: &wpb.UintValue{Value: 1}}}}},
	}
	for _, o := range seed {
		oks, _, err := s.masterRIB.AddEntry(o.NetworkInstance, o)
		if err != nil || len(oks) != 1 {
			panic("cannot seed RIB")
		}
	}
	return s, id
}

var vfBadV4 = []string{"", "1.1.1.1", "300.1.1.1/32", "1.1.1.1/33", "2001:db8::/32", "not-a-prefix"}
var vfBadV6 = []string{"", "2001:db8::1", "2001:db8::/129", "1.1.1.1/32", "zz::/64"}

// vfUndefinedEncap: any int32 that OpenconfigAftTypesEncapsulationHeaderType does not define (defined: 0..8).
func vfUndefinedEncap() enums.OpenconfigAftTypesEncapsulationHeaderType {
	v := vfI32("enum")
	vfAssume(vfOr(v < 0, v > 8))
	return enums.OpenconfigAftTypesEncapsulationHeaderType(v)
}

// vfMalformedEntry returns an operation whose content is invalid for ADD/REPLACE
// (shape chosen symbolically), and whether it is also invalid for DELETE.
func vfMalformedOp(op *spb.AFTOperation) (badForDelete bool) {
	u := func(v uint64) *wpb.UintValue { return &wpb.UintValue{Value: v} }
	switch vfInt("shape", 0, 29) {
	case 0: // no entry at all
		return true
	case 1:
		op.Entry = &spb.AFTOperation_Ipv4{}
		return true
	case 2:
		op.Entry = &spb.AFTOperation_Ipv4{Ipv4: &aftpb.Afts_Ipv4EntryKey{Prefix: "9.9.9.9/32"}}
	case 3:
		op.Entry = &spb.AFTOperation_Ipv4{Ipv4: &aftpb.Afts_Ipv4EntryKey{Prefix: vfBadV4[vfInt("badv4", 0, len(vfBadV4)-1)], Ipv4Entry: &aftpb.Afts_Ipv4Entry{NextHopGroup: u(1)}}}
	case 4:
		op.Entry = &spb.AFTOperation_Ipv4{Ipv4: &aftpb.Afts_Ipv4EntryKey{Prefix: "9.9.9.9/32", Ipv4Entry: &aftpb.Afts_Ipv4Entry{}}}
	case 5:
		op.Entry = &spb.AFTOperation_Ipv4{Ipv4: &aftpb.Afts_Ipv4EntryKey{Prefix: "9.9.9.9/32", Ipv4Entry: &aftpb.Afts_Ipv4Entry{NextHopGroup: u(0)}}}
	case 6:
		op.Entry = &spb.AFTOperation_Ipv4{Ipv4: &aftpb.Afts_Ipv4EntryKey{Prefix: "9.9.9.9/32", Ipv4Entry: &aftpb.Afts_Ipv4Entry{NextHopGroup: u(1), NextHopGroupNetworkInstance: &wpb.StringValue{Value: "NO-SUCH-NI"}}}}
	case 7:
		op.Entry = &spb.AFTOperation_Ipv6{}
		return true
	case 8:
		op.Entry = &spb.AFTOperation_Ipv6{Ipv6: &aftpb.Afts_Ipv6EntryKey{Prefix: "2001:db8:9::/64"}}
	case 9:
		op.Entry = &spb.AFTOperation_Ipv6{Ipv6: &aftpb.Afts_Ipv6EntryKey{Prefix: vfBadV6[vfInt("badv6", 0, len(vfBadV6)-1)], Ipv6Entry: &aftpb.Afts_Ipv6Entry{NextHopGroup: u(1)}}}
	case 10:
		op.Entry = &spb.AFTOperation_Ipv6{Ipv6: &aftpb.Afts_Ipv6EntryKey{Prefix: "2001:db8:9::/64", Ipv6Entry: &aftpb.Afts_Ipv6Entry{NextHopGroup: u(0)}}}
	case 11:
		op.Entry = &spb.AFTOperation_Mpls{}
		return true
	case 12: // label entry without a label
		op.Entry = &spb.AFTOperation_Mpls{Mpls: &aftpb.Afts_LabelEntryKey{LabelEntry: &aftpb.Afts_LabelEntry{NextHopGroup: u(1)}}}
		return true
	case 13: // label outside [16, 1048575], any 64-bit value
		l := vfU64("label")
		vfAssume(vfOr(l < 16, l > 1048575))
		op.Entry = &spb.AFTOperation_Mpls{Mpls: &aftpb.Afts_LabelEntryKey{Label: &aftpb.Afts_LabelEntryKey_LabelUint64{LabelUint64: l}, LabelEntry: &aftpb.Afts_LabelEntry{NextHopGroup: u(1)}}}
		// a label that does not fit the 32-bit key cannot name any entry: even a DELETE of it is malformed (and must
		// not alias the installed label with the same low 32 bits - label 200 is installed)
		return l > 0xffffffff
	case 14:
		op.Entry = &spb.AFTOperation_Mpls{Mpls: &aftpb.Afts_LabelEntryKey{Label: &aftpb.Afts_LabelEntryKey_LabelUint64{LabelUint64: 100}}}
	case 15:
		op.Entry = &spb.AFTOperation_Mpls{Mpls: &aftpb.Afts_LabelEntryKey{Label: &aftpb.Afts_LabelEntryKey_LabelUint64{LabelUint64: 100}, LabelEntry: &aftpb.Afts_LabelEntry{NextHopGroup: u(0)}}}
	case 16:
		op.Entry = &spb.AFTOperation_NextHopGroup{}
		return true
	case 17:
		op.Entry = &spb.AFTOperation_NextHopGroup{NextHopGroup: &aftpb.Afts_NextHopGroupKey{Id: 0, NextHopGroup: &aftpb.Afts_NextHopGroup{
			NextHop: []*aftpb.Afts_NextHopGroup_NextHopKey{{Index: 1, NextHop: &aftpb.Afts_NextHopGroup_NextHop{}}}}}}
		return true
	case 18: // empty group
		op.Entry = &spb.AFTOperation_NextHopGroup{NextHopGroup: &aftpb.Afts_NextHopGroupKey{Id: 7, NextHopGroup: &aftpb.Afts_NextHopGroup{}}}
	case 19:
		op.Entry = &spb.AFTOperation_NextHopGroup{NextHopGroup: &aftpb.Afts_NextHopGroupKey{Id: 7}}
	case 20: // zero member index, alone or next to a valid / missing member
		ms := []*aftpb.Afts_NextHopGroup_NextHopKey{{Index: 0, NextHop: &aftpb.Afts_NextHopGroup_NextHop{}}}
		switch vfInt("zero-member-with", 0, 2) {
		case 1:
			ms = append(ms, &aftpb.Afts_NextHopGroup_NextHopKey{Index: 1, NextHop: &aftpb.Afts_NextHopGroup_NextHop{}})
		case 2:
			ms = append(ms, &aftpb.Afts_NextHopGroup_NextHopKey{Index: 55, NextHop: &aftpb.Afts_NextHopGroup_NextHop{}})
		}
		op.Entry = &spb.AFTOperation_NextHopGroup{NextHopGroup: &aftpb.Afts_NextHopGroupKey{Id: 7, NextHopGroup: &aftpb.Afts_NextHopGroup{NextHop: ms}}}
	case 21: // member without body
		op.Entry = &spb.AFTOperation_NextHopGroup{NextHopGroup: &aftpb.Afts_NextHopGroupKey{Id: 7, NextHopGroup: &aftpb.Afts_NextHopGroup{
			NextHop: []*aftpb.Afts_NextHopGroup_NextHopKey{{Index: 1}}}}}
	case 22:
		op.Entry = &spb.AFTOperation_NextHop{}
		return true
	case 23:
		op.Entry = &spb.AFTOperation_NextHop{NextHop: &aftpb.Afts_NextHopKey{Index: 0, NextHop: &aftpb.Afts_NextHop{}}}
		return true
	case 24:
		op.Entry = &spb.AFTOperation_NextHop{NextHop: &aftpb.Afts_NextHopKey{Index: 77}}
	case 25: // enum number the type does not define (any of the 2^32-9 values), next-hop encapsulate-header
		op.Entry = &spb.AFTOperation_NextHop{NextHop: &aftpb.Afts_NextHopKey{Index: 77, NextHop: &aftpb.Afts_NextHop{EncapsulateHeader: vfUndefinedEncap()}}}
	case 26:
		op.Entry = &spb.AFTOperation_NextHop{NextHop: &aftpb.Afts_NextHopKey{Index: 77, NextHop: &aftpb.Afts_NextHop{DecapsulateHeader: vfUndefinedEncap()}}}
	case 27:
		op.Entry = &spb.AFTOperation_Ipv4{Ipv4: &aftpb.Afts_Ipv4EntryKey{Prefix: "9.9.9.9/32", Ipv4Entry: &aftpb.Afts_Ipv4Entry{NextHopGroup: u(1), DecapsulateHeader: vfUndefinedEncap()}}}
	case 29: // enumerated label with a number the enum does not define (defined: 0-4, 8, 9)
		v := vfI32("label-enum")
		vfAssume(vfOr(vfOr(v < 0, v > 9), vfAnd(v >= 5, v <= 7)))
		op.Entry = &spb.AFTOperation_Mpls{Mpls: &aftpb.Afts_LabelEntryKey{Label: &aftpb.Afts_LabelEntryKey_LabelOpenconfigmplstypesmplslabelenum{
			LabelOpenconfigmplstypesmplslabelenum: enums.OpenconfigMplsTypesMplsLabelEnum(v)}, LabelEntry: &aftpb.Afts_LabelEntry{NextHopGroup: u(1)}}}
		return true
	case 28:
		op.Entry = &spb.AFTOperation_Ipv6{Ipv6: &aftpb.Afts_Ipv6EntryKey{Prefix: "2001:db8:9::/64", Ipv6Entry: &aftpb.Afts_Ipv6Entry{NextHopGroup: u(1), DecapsulateHeader: vfUndefinedEncap()}}}
	}
	return false
}

// VfC12_malformed: one operation with invalid content (or an invalid network
// instance / operation type around valid content) sent by the elected primary.
func VfC12_malformed() {
	s, id := vfPrimaryServer()
	// a label entry whose key an out-of-range 64-bit label could alias (same low 32 bits)
	if oks, _, err := s.masterRIB.AddEntry(DefaultNetworkInstanceName, &spb.AFTOperation{Id: 904, NetworkInstance: DefaultNetworkInstanceName, Op: spb.AFTOperation_ADD,
		Entry: &spb.AFTOperation_Mpls{Mpls: &aftpb.Afts_LabelEntryKey{Label: &aftpb.Afts_LabelEntryKey_LabelUint64{LabelUint64: 200}, LabelEntry: &aftpb.Afts_LabelEntry{NextHopGroup: &wpb.UintValue{Value: 1}}}}}); err != nil || len(oks) != 1 {
		panic("cannot seed label entry")
	}
	op := &spb.AFTOperation{Id: 5, ElectionId: id}
	typ := vfI32("op.type") // any enum number, defined or not
	op.Op = spb.AFTOperation_Operation(typ)
	badNI := vfBool("bad-ni")
	if badNI {
		op.NetworkInstance = vfStrK("ni", "ni")
		vfAssume(vfAnd(op.NetworkInstance != DefaultNetworkInstanceName, op.NetworkInstance != "VRF-A"))
	} else {
		op.NetworkInstance = DefaultNetworkInstanceName
	}
	defined := typ == int32(spb.AFTOperation_ADD) || typ == int32(spb.AFTOperation_REPLACE) || typ == int32(spb.AFTOperation_DELETE)
	isDelete := typ == int32(spb.AFTOperation_DELETE)
	badForDelete := false
	if badNI || !defined {
		// valid content, invalid envelope
		op.Entry = &spb.AFTOperation_NextHop{NextHop: &aftpb.Afts_NextHopKey{Index: 77, NextHop: &aftpb.Afts_NextHop{}}}
		badForDelete = true
	} else {
		badForDelete = vfMalformedOp(op)
	}
	before := vfSnap(s.masterRIB)

	resCh := make(chan *spb.ModifyResponse, 16)
	errCh := make(chan error, 16)
	s.doModify("A", []*spb.AFTOperation{op}, resCh, errCh)
	close(resCh)
	close(errCh)
	var okc, failc, nerr int
	for r := range resCh {
		for _, x := range r.GetResult() {
			vfAssert(x.Id == 5, "C12:answer-names-the-operation")
			switch x.Status {
			case spb.AFTResult_FAILED:
				failc++
			case spb.AFTResult_RIB_PROGRAMMED, spb.AFTResult_FIB_PROGRAMMED:
				okc++
			}
		}
	}
	for range errCh {
		nerr++
	}
	after := vfSnap(s.masterRIB)
	vfAssert(vfSnapEqual(before, after), "C12:malformed-operation-leaves-rib-held-ops-and-counters-unchanged")
	vfAssert(okc+failc+nerr >= 1, "C12:malformed-operation-is-answered")
	if !isDelete || badForDelete {
		vfAssert(okc == 0, "C12:malformed-operation-never-acknowledged")
		vfAssert(failc >= 1 || nerr >= 1, "C12:malformed-operation-answered-failed-or-clean-error")
		vfReach("rejected")
	} else {
		vfReach("delete-of-absent-key")
	}
	// the server is not wedged: every instance still serves a write and a read
	s.masterRIB.VfLockProbe()
	vfReach("end")
}
