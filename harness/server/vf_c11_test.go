//go:build verif

package server

import (
	"os"
	"strconv"
	"strings"
	"sync"
	"sync/atomic"
	"testing"

	"github.com/openconfig/gribigo/rib"

	spb "github.com/openconfig/gribi/v1/proto/service"
)

// TestVfRaceStress runs sessions, Gets and Flushes concurrently against one
// server (real goroutines); under `go test -race` it is the native confirmation
// step for lock-discipline findings of VfC11_lockset.
func TestVfRaceStress(t *testing.T) {
	s := &Server{cs: map[string]*clientState{}, masterRIB: rib.New(DefaultNetworkInstanceName)}
	if err := s.masterRIB.AddNetworkInstance("VRF-A"); err != nil {
		t.Fatal(err)
	}
	var wg sync.WaitGroup
	var ctr uint64
	for i := 0; i < 4; i++ {
		i := i
		wg.Add(1)
		go func() {
			defer wg.Done()
			for k := 0; k < 150; k++ {
				// every new session announces the highest id so far, so it is the primary until the next one announces
				id := &spb.Uint128{High: 1, Low: atomic.AddUint64(&ctr, 1)}
				nh, g := uint64(100+i), uint64(200+i)
				pfx := []string{"10.0.0.1/32", "10.0.0.2/32", "10.0.0.3/32", "10.0.0.4/32"}[i]
				del := func(o *spb.AFTOperation, id uint64) *spb.AFTOperation {
					o.Id, o.Op = id, spb.AFTOperation_DELETE
					return o
				}
				st := &vfModStream{msgs: []*spb.ModifyRequest{
					vfParamsMsg(),
					{ElectionId: id},
					{Operation: []*spb.AFTOperation{vfNHOp(1, DefaultNetworkInstanceName, nh, id)}},
					{Operation: []*spb.AFTOperation{vfNHGOp(2, DefaultNetworkInstanceName, g, nh, id)}},
					{Operation: []*spb.AFTOperation{vfV4Op(3, DefaultNetworkInstanceName, pfx, g, id)}},
					{Operation: []*spb.AFTOperation{del(vfV4Op(0, DefaultNetworkInstanceName, pfx, g, id), 4)}},
					{Operation: []*spb.AFTOperation{del(vfNHGOp(0, DefaultNetworkInstanceName, g, nh, id), 5)}},
					{Operation: []*spb.AFTOperation{del(vfNHOp(0, DefaultNetworkInstanceName, nh, id), 6)}},
				}}
				s.Modify(st)
			}
		}()
	}
	for i := 0; i < 2; i++ {
		wg.Add(2)
		go func() {
			defer wg.Done()
			for k := 0; k < 60; k++ {
				gs := &vfGetStream{failAt: -1}
				s.Get(&spb.GetRequest{NetworkInstance: &spb.GetRequest_All{All: &spb.Empty{}}, Aft: spb.AFTType_ALL}, gs)
			}
		}()
		go func() {
			defer wg.Done()
			for k := 0; k < 60; k++ {
				s.Flush(nil, &spb.FlushRequest{NetworkInstance: &spb.FlushRequest_All{All: &spb.Empty{}},
					Election: &spb.FlushRequest_Id{Id: &spb.Uint128{High: 1, Low: atomic.LoadUint64(&ctr)}}})
				s.Flush(nil, &spb.FlushRequest{NetworkInstance: &spb.FlushRequest_All{All: &spb.Empty{}}, Election: &spb.FlushRequest_Override{Override: &spb.Empty{}}})
			}
		}()
	}
	wg.Wait()
}

// TestVfRacePair runs two roles of VfC11_lockset concurrently (named in $VF_RACE_PAIR as
// "roleA|roleB", e.g. "session-A:operation|flush:any") in tight loops over rotating concrete
// inputs; under `go test -race` it is the targeted confirmation of one lock-discipline finding.
func TestVfRacePair(t *testing.T) {
	spec := os.Getenv("VF_RACE_PAIR")
	if spec == "" {
		t.Skip("no VF_RACE_PAIR")
	}
	parts := strings.Split(spec, "|")
	if len(parts) != 2 {
		t.Fatalf("bad VF_RACE_PAIR %q", spec)
	}
	parse := func(r string) (role int, sess string) {
		sess = "A"
		if strings.HasPrefix(r, "session-") {
			sess = r[len("session-") : len("session-")+1]
			r = r[len("session-X:"):]
		}
		for i, n := range vfC11RoleNames {
			if n == r {
				return i, sess
			}
		}
		t.Fatalf("unknown role %q", r)
		return
	}
	ra, sa := parse(parts[0])
	rb, sb := parse(parts[1])
	id := &spb.Uint128{High: 1, Low: 1}
	ops := func(k int) *spb.AFTOperation {
		del := func(o *spb.AFTOperation) *spb.AFTOperation { o.Op = spb.AFTOperation_DELETE; return o }
		switch k % 8 {
		case 0:
			return vfNHOp(1, DefaultNetworkInstanceName, 5, id)
		case 1:
			return vfNHGOp(1, DefaultNetworkInstanceName, 5, 5, id)
		case 2:
			return vfV4Op(1, DefaultNetworkInstanceName, "9.9.9.9/32", 5, id)
		case 3:
			o := vfV4Op(1, DefaultNetworkInstanceName, "9.9.9.9/32", 1, id) // moves the reference, as an explicit REPLACE
			o.Op = spb.AFTOperation_REPLACE
			return o
		case 4:
			return del(vfV4Op(1, DefaultNetworkInstanceName, "9.9.9.9/32", 1, id))
		case 5:
			return del(vfNHGOp(1, DefaultNetworkInstanceName, 5, 5, id))
		case 6:
			return del(vfNHOp(1, DefaultNetworkInstanceName, 5, id))
		}
		return vfNHGOp(1, DefaultNetworkInstanceName, 7, 99, id) // held (unresolved)
	}
	iters := 400
	if v := os.Getenv("VF_PAIR_ITERS"); v != "" {
		if n, err := strconv.Atoi(v); err == nil && n > 0 {
			iters = n
		}
	}
	for _, primary := range []string{"A", "B"} {
		s := vfC11Setup(primary)
		var wg sync.WaitGroup
		run := func(role int, sess string) {
			defer wg.Done()
			for k := 0; k < iters; k++ {
				in := &vfC11In{ack: k % 2, eHi: 1, eLo: 1, op: ops(k), flushElec: 1 + k%2, fHi: 1, fLo: 1}
				vfC11Role(s, role, sess, in)
				if role == 4 { // re-create what disconnect removed so that the loop keeps exercising it
					s.newClient(sess)
				}
				if role == 6 && k%4 == 0 {
					func() {
						defer func() { recover() }()
						vfC11Seed(s)
					}()
				}
			}
		}
		wg.Add(2)
		go run(ra, sa)
		go run(rb, sb)
		wg.Wait()
	}
}
