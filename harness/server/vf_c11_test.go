//go:build verif

package server

import (
	"sync"
	"testing"

	"github.com/openconfig/gribigo/rib"

	spb "github.com/openconfig/gribi/v1/proto/service"
)

// TestVfRaceStress runs sessions, Gets and Flushes concurrently against one
// server (real goroutines); under `go test -race` it is the native confirmation
// step for lock-discipline findings of VfC11_lockset.
func TestVfRaceStress(t *testing.T) {
	s := &Server{cs: map[string]*clientState{}, masterRIB: rib.New(DefaultNetworkInstanceName)}
	if err := s.masterRIB.AddNetworkInstance("VRF-A"); err != nil {
		t.Fatal(err)
	}
	var wg sync.WaitGroup
	for i := 0; i < 4; i++ {
		i := i
		wg.Add(1)
		go func() {
			defer wg.Done()
			for k := 0; k < 30; k++ {
				id := &spb.Uint128{High: 1, Low: uint64(10*k + i + 1)}
				nh, g := uint64(100+i), uint64(200+i)
				pfx := []string{"10.0.0.1/32", "10.0.0.2/32", "10.0.0.3/32", "10.0.0.4/32"}[i]
				del := func(o *spb.AFTOperation, id uint64) *spb.AFTOperation {
					o.Id, o.Op = id, spb.AFTOperation_DELETE
					return o
				}
				st := &vfModStream{msgs: []*spb.ModifyRequest{
					vfParamsMsg(),
					{ElectionId: id},
					{Operation: []*spb.AFTOperation{vfNHOp(1, DefaultNetworkInstanceName, nh, id)}},
					{Operation: []*spb.AFTOperation{vfNHGOp(2, DefaultNetworkInstanceName, g, nh, id)}},
					{Operation: []*spb.AFTOperation{vfV4Op(3, DefaultNetworkInstanceName, pfx, g, id)}},
					{Operation: []*spb.AFTOperation{del(vfV4Op(0, DefaultNetworkInstanceName, pfx, g, id), 4)}},
					{Operation: []*spb.AFTOperation{del(vfNHGOp(0, DefaultNetworkInstanceName, g, nh, id), 5)}},
					{Operation: []*spb.AFTOperation{del(vfNHOp(0, DefaultNetworkInstanceName, nh, id), 6)}},
				}}
				s.Modify(st)
			}
		}()
	}
	for i := 0; i < 2; i++ {
		wg.Add(2)
		go func() {
			defer wg.Done()
			for k := 0; k < 60; k++ {
				gs := &vfGetStream{failAt: -1}
				s.Get(&spb.GetRequest{NetworkInstance: &spb.GetRequest_All{All: &spb.Empty{}}, Aft: spb.AFTType_ALL}, gs)
			}
		}()
		go func() {
			defer wg.Done()
			for k := 0; k < 60; k++ {
				s.Flush(nil, &spb.FlushRequest{NetworkInstance: &spb.FlushRequest_All{All: &spb.Empty{}},
					Election: &spb.FlushRequest_Id{Id: &spb.Uint128{High: 1, Low: uint64(k)}}})
				s.Flush(nil, &spb.FlushRequest{NetworkInstance: &spb.FlushRequest_All{All: &spb.Empty{}}, Election: &spb.FlushRequest_Override{Override: &spb.Empty{}}})
			}
		}()
	}
	wg.Wait()
}
