//go:build verif

package server

import "sort"

func init() { vfRegister("VfSelf_strOrder", VfSelf_strOrder) }

// VfSelf_strOrder: engine self-test - the order of symbolic strings is a consistent strict total order on every
// path (the Str sort has equality only; the order is one free Boolean per pair kept transitively closed), and
// sort.Strings / sort.SearchStrings agree with it.  Compared with the native run on the solver's inputs.
func VfSelf_strOrder() {
	a, b := vfStr("a"), vfStr("b")
	if a < b {
		vfAssert(!(b < a) && a != b && a <= b && !(a >= b) && b > a, "self:string-order-antisymmetric")
	} else {
		vfAssert(a >= b && !(a < b), "self:string-order-total")
		if a != b {
			vfAssert(b < a, "self:string-order-total")
		}
	}
	if a < "m" && "m" < b {
		vfAssert(a < b, "self:string-order-transitive-through-a-concrete-string")
	}
	if a < "c" {
		vfAssert(a < "d" && !("e" < a), "self:string-order-respects-concrete-order")
	}
	xs := []string{b, "m", a}
	sort.Strings(xs)
	vfAssert(xs[0] <= xs[1] && xs[1] <= xs[2] && xs[0] <= xs[2], "self:sort-strings-sorted")
	i := sort.SearchStrings(xs, a)
	vfAssert(i < 3 && xs[i] == a, "self:search-strings-finds-member")
	vfReach("end")
}
