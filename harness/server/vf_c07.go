//go:build verif

package server

import (
	"google.golang.org/grpc"
	"google.golang.org/grpc/codes"

	aftpb "github.com/openconfig/gribi/v1/proto/gribi_aft"
	spb "github.com/openconfig/gribi/v1/proto/service"
	wpb "github.com/openconfig/ygot/proto/ywrapper"
)

func init() { vfRegister("VfC07_doGet", VfC07_doGet) }

type vfGetStream struct {
	grpc.ServerStream
	sent   []*spb.GetResponse
	failAt int // Send fails at this index (-1: never)
	err    error
}

func (s *vfGetStream) Send(r *spb.GetResponse) error {
	if s.failAt >= 0 && len(s.sent) >= s.failAt {
		return s.err
	}
	s.sent = append(s.sent, r)
	return nil
}

// VfC07_doGet: the request validation / instance fan-out / filter of Server.Get,
// through the real Get (goroutines, channels) on a scripted stream.
func VfC07_doGet() {
	s, _ := vfPrimaryServer() // default: next-hop 1, group 1, 1.1.1.1/32
	// what the VRF holds: a next-hop, or only an IPv6 / MPLS entry resolved by the default instance's group
	vrfKind := spb.AFTType_NEXTHOP
	switch vfInt("vrf.content", 0, 2) {
	case 0:
		vfAddNH(s.masterRIB, "VRF-A", 2)
	case 1:
		vrfKind = spb.AFTType_IPV6
		op := &spb.AFTOperation{Id: 950, NetworkInstance: "VRF-A", Op: spb.AFTOperation_ADD, Entry: &spb.AFTOperation_Ipv6{Ipv6: &aftpb.Afts_Ipv6EntryKey{Prefix: "2001:db8:1::/64",
			Ipv6Entry: &aftpb.Afts_Ipv6Entry{NextHopGroup: &wpb.UintValue{Value: 1}, NextHopGroupNetworkInstance: &wpb.StringValue{Value: DefaultNetworkInstanceName}}}}}
		if oks, _, err := s.masterRIB.AddEntry("VRF-A", op); err != nil || len(oks) != 1 {
			panic("cannot seed VRF")
		}
	case 2:
		vrfKind = spb.AFTType_MPLS
		op := &spb.AFTOperation{Id: 951, NetworkInstance: "VRF-A", Op: spb.AFTOperation_ADD, Entry: &spb.AFTOperation_Mpls{Mpls: &aftpb.Afts_LabelEntryKey{
			Label:      &aftpb.Afts_LabelEntryKey_LabelUint64{LabelUint64: 100},
			LabelEntry: &aftpb.Afts_LabelEntry{NextHopGroup: &wpb.UintValue{Value: 1}, NextHopGroupNetworkInstance: &wpb.StringValue{Value: DefaultNetworkInstanceName}}}}}
		if oks, _, err := s.masterRIB.AddEntry("VRF-A", op); err != nil || len(oks) != 1 {
			panic("cannot seed VRF")
		}
	}
	req := &spb.GetRequest{}
	sel := vfInt("ni.sel", 0, 2)
	name := ""
	switch sel {
	case 1:
		req.NetworkInstance = &spb.GetRequest_All{All: &spb.Empty{}}
	case 2:
		name = vfStrK("ni.name", "ni")
		req.NetworkInstance = &spb.GetRequest_Name{Name: name}
	}
	aft := vfI32("aft")
	req.Aft = spb.AFTType(aft)
	st := &vfGetStream{failAt: -1}
	err := s.Get(req, st)

	knownType := aft >= 1 && aft <= 6 // ALL, IPV4, IPV6, MPLS, NEXTHOP, NEXTHOP_GROUP
	inDef := sel == 1 || name == DefaultNetworkInstanceName
	inVRF := sel == 1 || name == "VRF-A"
	switch {
	case sel == 2 && name == "":
		vfAssert(err != nil, "C07:empty-instance-name-rejected")
		vfAssert(len(st.sent) == 0, "C07:rejected-get-sends-nothing")
		vfReach("empty-name")
	case sel == 2 && !inDef && !inVRF:
		vfAssert(err != nil, "C07:unknown-instance-rejected")
		vfAssert(len(st.sent) == 0, "C07:rejected-get-sends-nothing")
		vfReach("unknown-name")
	case !knownType:
		vfAssert(err != nil && vfStatusCode(err) != uint32(codes.OK), "C07:unsupported-table-rejected")
		vfReach("bad-type")
	case sel == 0:
		// no instance selected: an empty scope
		vfAssert(len(st.sent) == 0, "C07:empty-scope-sends-nothing")
		vfReach("no-instance")
	default:
		vfAssert(err == nil, "C07:valid-get-succeeds")
		want := 0
		t := spb.AFTType(aft)
		if inDef {
			if t == spb.AFTType_ALL || t == spb.AFTType_IPV4 {
				want++
			}
			if t == spb.AFTType_ALL || t == spb.AFTType_NEXTHOP_GROUP {
				want++
			}
			if t == spb.AFTType_ALL || t == spb.AFTType_NEXTHOP {
				want++
			}
		}
		if inVRF && (t == spb.AFTType_ALL || t == vrfKind) {
			want++
		}
		vfAssert(len(st.sent) == want, "C07:get-streams-exactly-the-selected-scope")
		for _, r := range st.sent {
			for _, e := range r.Entry {
				vfAssert(vfOr(vfAnd(inDef, e.NetworkInstance == DefaultNetworkInstanceName), vfAnd(inVRF, e.NetworkInstance == "VRF-A")), "C07:entries-only-from-selected-instances")
			}
		}
		vfReach("valid")
	}
	vfReach("end")
}
