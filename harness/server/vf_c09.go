//go:build verif

package server

import (
	"io"

	"github.com/openconfig/gribigo/rib"
	"google.golang.org/grpc"
	"google.golang.org/grpc/codes"

	spb "github.com/openconfig/gribi/v1/proto/service"
)

func init() {
	vfRegister("VfC09_modify2", VfC09_modify2)
	vfRegister("VfC09_modify3", VfC09_modify3)
	vfRegister("VfC09_session3", VfC09_session3)
}

// vfModStream is a scripted Modify stream.
type vfModStream struct {
	grpc.ServerStream
	msgs    []*spb.ModifyRequest
	pos     int
	sent    []*spb.ModifyResponse
	recvErr error // returned once the script is exhausted (io.EOF unless set)
}

func (s *vfModStream) Recv() (*spb.ModifyRequest, error) {
	if s.pos < len(s.msgs) {
		m := s.msgs[s.pos]
		s.pos++
		return m, nil
	}
	if s.recvErr != nil {
		return nil, s.recvErr
	}
	return nil, io.EOF
}

func (s *vfModStream) Send(r *spb.ModifyResponse) error {
	s.sent = append(s.sent, r)
	return nil
}

const (
	vfMParams = iota
	vfMElection
	vfMOp
	vfMParamsAndElection
	vfMElectionAndOp
	vfMEmpty
	vfMParamsAndOp
	vfMAllThree
)

type vfMsgD struct {
	kind               int
	red, pers, ack     int32
	eH, eL             uint64
	opHasE             bool
	opEH, opEL         uint64
	opID, opIdx        uint64
	// an optional SECOND operation in the same request, with its own stamp
	op2                bool
	op2HasE            bool
	op2EH, op2EL       uint64
	op2ID, op2Idx      uint64
}

func vfSymMsg(i int) (*vfMsgD, *spb.ModifyRequest) { return vfSymMsgK(i, -1) }

// vfSymMsgK: kind >= 0 fixes the shape of the message (its contents stay symbolic).
func vfSymMsgK(i, kind int) (*vfMsgD, *spb.ModifyRequest) {
	d := &vfMsgD{kind: kind, opID: uint64(i + 1), opIdx: uint64(100 + i)}
	if kind < 0 {
		d.kind = vfInt("m.kind", 0, 7)
	}
	m := &spb.ModifyRequest{}
	params := func() {
		d.red, d.pers, d.ack = int32(vfInt("m.red", 0, 1)), int32(vfInt("m.pers", 0, 1)), int32(vfInt("m.ack", 0, 1))
		m.Params = &spb.SessionParameters{Redundancy: spb.SessionParameters_ClientRedundancy(d.red),
			Persistence: spb.SessionParameters_AFTPersistence(d.pers), AckType: spb.SessionParameters_AFTResultStatusType(d.ack)}
	}
	election := func() {
		d.eH, d.eL = vfU64("m.e.hi"), vfU64("m.e.lo")
		m.ElectionId = &spb.Uint128{High: d.eH, Low: d.eL}
	}
	op := func() {
		var e *spb.Uint128
		d.opHasE = vfBool("m.op.hasElection")
		if d.opHasE {
			d.opEH, d.opEL = vfU64("m.op.e.hi"), vfU64("m.op.e.lo")
			e = &spb.Uint128{High: d.opEH, Low: d.opEL}
		}
		m.Operation = []*spb.AFTOperation{vfNHOp(d.opID, DefaultNetworkInstanceName, d.opIdx, e)}
		if vfBool("m.op2") {
			d.op2, d.op2ID, d.op2Idx = true, d.opID+50, d.opIdx+50
			var e2 *spb.Uint128
			d.op2HasE = vfBool("m.op2.hasElection")
			if d.op2HasE {
				d.op2EH, d.op2EL = vfU64("m.op2.e.hi"), vfU64("m.op2.e.lo")
				e2 = &spb.Uint128{High: d.op2EH, Low: d.op2EL}
			}
			m.Operation = append(m.Operation, vfNHOp(d.op2ID, DefaultNetworkInstanceName, d.op2Idx, e2))
		}
	}
	switch d.kind {
	case vfMParams:
		params()
	case vfMElection:
		election()
	case vfMOp:
		op()
	case vfMParamsAndElection:
		params()
		election()
	case vfMElectionAndOp:
		election()
		op()
	case vfMParamsAndOp:
		params()
		op()
	case vfMAllThree:
		params()
		election()
		op()
	}
	return d, m
}

func vfC09(k int) { vfC09K(k, nil) }

// vfC09K: kinds (when given) fixes the shapes of the k messages.
func vfC09K(k int, kinds []int) {
	s := &Server{cs: map[string]*clientState{}, masterRIB: rib.New(DefaultNetworkInstanceName)}
	// one other live session with arbitrary negotiated parameters
	otherExists := vfBool("B.exists")
	var bp clientParams
	var bLast *spb.Uint128
	if otherExists {
		bp = clientParams{ExpectElecID: vfBool("B.single-primary"), Persist: vfBool("B.preserve"), FIBAck: vfBool("B.fib-ack")}
		cp := bp
		s.cs["B"] = &clientState{params: &cp, setParams: true}
		if vfBool("B.announced") {
			bLast = &spb.Uint128{High: vfU64("B.last.hi"), Low: vfU64("B.last.lo")}
			s.cs["B"].lastElecID = bLast
		}
	}
	has, curH, curL, oldMaster := vfElection(s)

	st := &vfModStream{}
	var ds []*vfMsgD
	for i := 0; i < k; i++ {
		kind := -1
		if kinds != nil {
			kind = kinds[i]
		}
		d, m := vfSymMsgK(i, kind)
		ds = append(ds, d)
		st.msgs = append(st.msgs, m)
	}

	err := s.Modify(st)

	// ---- oracle: the per-session automaton of the specification ----
	var (
		gotmsg      bool
		negotiated  bool // params accepted on this session
		sp, pers    bool
		fib         bool
		lastSet     bool
		lastH, lastL uint64
		selfMaster  bool
		wantResp    int
		terminated  bool
		wantCode    []codes.Code
		wantReason  int32 = -2 // -2: not pinned
		installed   = map[uint64]bool{}
	)
	for _, d := range ds {
		if terminated {
			break
		}
		switch d.kind {
		case vfMParamsAndElection, vfMElectionAndOp, vfMParamsAndOp, vfMAllThree:
			terminated, wantCode = true, []codes.Code{codes.InvalidArgument}
		case vfMEmpty:
			terminated = true // any non-OK status
		case vfMParams:
			switch {
			case gotmsg:
				terminated, wantCode, wantReason = true, []codes.Code{codes.FailedPrecondition}, int32(spb.ModifyRPCErrorDetails_MODIFY_NOT_ALLOWED)
			case d.red == int32(spb.SessionParameters_ALL_PRIMARY) || d.pers == int32(spb.SessionParameters_DELETE):
				terminated, wantCode, wantReason = true, []codes.Code{codes.FailedPrecondition, codes.Unimplemented}, int32(spb.ModifyRPCErrorDetails_UNSUPPORTED_PARAMS)
			case otherExists && !(bp.ExpectElecID && bp.Persist && bp.FIBAck == (d.ack == int32(spb.SessionParameters_RIB_AND_FIB_ACK))):
				terminated, wantCode, wantReason = true, []codes.Code{codes.FailedPrecondition}, int32(spb.ModifyRPCErrorDetails_PARAMS_DIFFER_FROM_OTHER_CLIENTS)
			default:
				negotiated, sp, pers, fib = true, true, true, d.ack == int32(spb.SessionParameters_RIB_AND_FIB_ACK)
				wantResp++
			}
		case vfMElection:
			switch {
			case !sp:
				terminated, wantCode, wantReason = true, []codes.Code{codes.FailedPrecondition}, int32(spb.ModifyRPCErrorDetails_ELECTION_ID_IN_ALL_PRIMARY)
			case d.eH == 0 && d.eL == 0:
				terminated, wantCode = true, []codes.Code{codes.InvalidArgument}
			default:
				lastSet, lastH, lastL = true, d.eH, d.eL
				if !has || ge128(d.eH, d.eL, curH, curL) {
					has, curH, curL, selfMaster = true, d.eH, d.eL, true
				}
				wantResp++
			}
		case vfMOp:
			// every operation of the request is judged on its own, in order; the first one that ends the RPC
			// stops the processing of the request
			type opD struct {
				hasE   bool
				eH, eL uint64
				idx    uint64
			}
			ops := []opD{{d.opHasE, d.opEH, d.opEL, d.opIdx}}
			if d.op2 {
				ops = append(ops, opD{d.op2HasE, d.op2EH, d.op2EL, d.op2Idx})
			}
			for _, o := range ops {
				if terminated {
					break
				}
				switch {
				case !(negotiated && sp && pers):
					terminated = true // non-OK (suite: Unimplemented / UNSUPPORTED_PARAMS with AllowUnimplemented)
				case !o.hasE:
					terminated, wantCode = true, []codes.Code{codes.FailedPrecondition}
				case !lastSet:
					terminated = true
				case !selfMaster || !has:
					wantResp++ // FAILED result, session continues
				case !eq128(o.eH, o.eL, lastH, lastL):
					wantResp++
				case !eq128(o.eH, o.eL, curH, curL):
					// stamped with the session's id but not the server's maximum: FAILED result or RPC error
					if ge128(curH, curL, o.eH, o.eL) {
						wantResp++
					} else {
						terminated = true
					}
				default:
					installed[o.idx] = true
					wantResp++
				}
			}
		}
		gotmsg = true
	}
	_ = fib

	if terminated {
		vfAssert(err != nil, "violation-ends-rpc-with-non-ok-status")
		if err != nil && len(wantCode) > 0 {
			c := vfStatusCode(err)
			ok := false
			for _, w := range wantCode {
				if c == uint32(w) {
					ok = true
				}
			}
			vfAssert(ok, "violation-status-code")
		}
		if err != nil && wantReason != -2 {
			vfAssert(vfStatusReason(err) == wantReason, "violation-error-details-reason")
		}
		vfReach("terminated")
	} else {
		vfAssert(err == nil, "conforming-session-ends-ok")
		vfAssert(len(st.sent) == wantResp, "one-response-per-accepted-message")
		vfReach("clean")
	}
	// the session's footprint is gone, the other session is untouched
	vfAssert(len(s.cs) == int(vfB2I(otherExists)), "session-footprint-removed")
	if otherExists {
		b := s.cs["B"]
		vfAssert(b != nil, "other-session-kept")
		if b != nil {
			vfAssert(b.params != nil && *b.params == bp && b.lastElecID == bLast, "other-session-untouched")
		}
	}
	// election state = what the accepted announcements produce
	if has {
		vfAssert(s.curElecID != nil, "election-state-after-session")
		if s.curElecID != nil {
			vfAssert(eq128(s.curElecID.High, s.curElecID.Low, curH, curL), "election-id-changed-only-by-accepted-announcements")
		}
	} else {
		vfAssert(s.curElecID == nil, "no-election-state-created")
	}
	if selfMaster {
		vfAssert(s.curMaster != oldMaster && s.curMaster != "B" && s.curMaster != "", "primary-is-announcing-session")
	} else {
		vfAssert(s.curMaster == oldMaster, "primary-unchanged-without-winning-announcement")
	}
	// RIB: only the legitimately stamped operations of this session
	for i := 0; i < k; i++ {
		for _, idx := range []uint64{uint64(100 + i), uint64(150 + i)} {
			vfAssert(vfNHInstalled(s.masterRIB, DefaultNetworkInstanceName, idx) == installed[idx], "rib-changed-only-by-legitimate-operations")
		}
	}
	vfReach("end")
}

func VfC09_modify2() { vfC09(2) }

// VfC09_session3: the shape of a working session - [parameters, election announcement, operation message with 1-2
// operations] - with every content symbolic (modes, 128-bit ids, per-operation stamps): reaches the operation
// handling that two free messages cannot.
func VfC09_session3() { vfC09K(3, []int{vfMParams, vfMElection, vfMOp}) }
// modify3: parameters, an election announcement, then ONE free message of any kind (three entirely free messages do not
// finish within the thorough budget since the two- and three-field message kinds were added; a first message other
// than parameters ends or rejects the RPC at once, which modify2 covers)
func VfC09_modify3() { vfC09K(3, []int{vfMParams, vfMElection, -1}) }
