//go:build verif

package server

import (
	"sync"
	"github.com/openconfig/gribigo/rib"
	"google.golang.org/grpc/codes"

	aftpb "github.com/openconfig/gribi/v1/proto/gribi_aft"
	spb "github.com/openconfig/gribi/v1/proto/service"
)

func init() {
	vfRegister("VfC04_mixedLeave3", VfC04_mixedLeave3)
	vfRegister("VfC05_mixed4", VfC05_mixed4)
	vfRegister("VfC05_handover", VfC05_handover)
	vfRegister("VfC05_mixed5", VfC05_mixed5)
	vfRegister("VfC04_mixedLeave4", VfC04_mixedLeave4)
	vfRegister("VfC04_concurrent", VfC04_concurrent)
	vfRegister("VfC05_runElection", VfC05_runElection)
	vfRegister("VfC04_doModify", VfC04_doModify)
	vfRegister("VfC08_flushDecision", VfC08_flushDecision)
	vfRegister("VfC04_history2", VfC04_history2)
	vfRegister("VfC04_mixed4", VfC04_mixed4)
	vfRegister("VfC04_mixed5", VfC04_mixed5)
	vfRegister("VfC05_runElection3", VfC05_runElection3)
	vfRegister("VfC04_doModify3", VfC04_doModify3)
	vfRegister("VfC04_history3", VfC04_history3)
}

func eq128(aH, aL, bH, bL uint64) bool { return vfAnd(aH == bH, aL == bL) }

// vfSessions builds a symbolic session table: sessions "A" and "B" may exist,
// with arbitrary negotiated parameters and an arbitrary (or no) announced id.
func vfSessions(s *Server) { vfSessionsN(s, []string{"A", "B"}) }

func vfSessionsN(s *Server, names []string) {
	for _, id := range names {
		if vfBool(id + ".exists") {
			cs := &clientState{params: &clientParams{
				ExpectElecID: vfBool(id + ".single-primary"),
				Persist:      vfBool(id + ".preserve"),
				FIBAck:       vfBool(id + ".fib-ack"),
			}}
			if vfBool(id + ".announced") {
				cs.lastElecID = &spb.Uint128{High: vfU64(id + ".last.hi"), Low: vfU64(id + ".last.lo")}
			}
			s.cs[id] = cs
		}
	}
}

// vfElection installs a symbolic election state: none, or a non-zero current
// id held by an arbitrary (possibly departed) session.
func vfElection(s *Server) (has bool, h, l uint64, master string) {
	has = vfBool("cur.set")
	if has {
		h, l = vfU64("cur.hi"), vfU64("cur.lo")
		vfAssume(vfOr(h != 0, l != 0))
		master = vfStr("cur.master")
		vfAssume(master != "")
		s.curElecID = &spb.Uint128{High: h, Low: l}
		s.curMaster = master
	}
	return
}

// VfC05_runElection: one announcement from an arbitrary server state.
func VfC05_runElection()  { vfC05RunElection([]string{"A", "B"}) }
func VfC05_runElection3() { vfC05RunElection([]string{"A", "B", "C"}) }

func vfC05RunElection(names []string) {
	s := &Server{cs: map[string]*clientState{}}
	vfSessionsN(s, names)
	has, curH, curL, oldMaster := vfElection(s)
	x := vfStr("x")
	eH, eL := vfU64("e.hi"), vfU64("e.lo")
	e := &spb.Uint128{High: eH, Low: eL}

	xs, known := s.cs[x]
	var oldLast *spb.Uint128
	sp := false
	if known {
		oldLast = xs.lastElecID
		sp = xs.params.ExpectElecID
	}
	oldCur := s.curElecID

	resp, err := s.runElection(x, e)

	unchanged := func() {
		vfAssert(s.curElecID == oldCur, "rejected-announcement-leaves-current-id")
		vfAssert(s.curMaster == oldMaster, "rejected-announcement-leaves-primary")
		if known {
			vfAssert(s.cs[x].lastElecID == oldLast, "rejected-announcement-leaves-session-id")
		}
	}
	switch {
	case !known:
		vfAssert(err != nil, "unknown-session-rejected")
		unchanged()
		vfReach("unknown-session")
	case !sp:
		vfAssert(err != nil, "election-id-outside-single-primary-rejected")
		vfAssert(vfStatusCode(err) == uint32(codes.FailedPrecondition), "election-id-outside-single-primary-code")
		vfAssert(vfStatusReason(err) == int32(spb.ModifyRPCErrorDetails_ELECTION_ID_IN_ALL_PRIMARY), "election-id-outside-single-primary-reason")
		unchanged()
		vfReach("not-single-primary")
	case eH == 0 && eL == 0:
		vfAssert(err != nil, "zero-id-rejected")
		vfAssert(vfStatusCode(err) == uint32(codes.InvalidArgument), "zero-id-code")
		unchanged()
		vfReach("zero-id")
	default:
		vfAssert(err == nil, "valid-announcement-accepted")
		if err != nil {
			return
		}
		wins := vfOr(!has, ge128(eH, eL, curH, curL))
		maxH, maxL := vfIte64(wins, eH, curH), vfIte64(wins, eL, curL)
		vfAssert(s.curElecID != nil, "current-id-set")
		if s.curElecID == nil || resp == nil || resp.ElectionId == nil {
			vfAssert(false, "response-carries-id")
			return
		}
		vfAssert(eq128(s.curElecID.High, s.curElecID.Low, maxH, maxL), "current-id-is-running-maximum")
		vfAssert(eq128(resp.ElectionId.High, resp.ElectionId.Low, maxH, maxL), "response-carries-running-maximum")
		vfAssert(s.curMaster == vfIteStr(wins, x, oldMaster), "primary-is-latest-announcer-of-id>=all-previous")
		if has {
			vfAssert(ge128(s.curElecID.High, s.curElecID.Low, curH, curL), "reported-id-never-decreases")
		}
		l := s.cs[x].lastElecID
		vfAssert(l != nil && eq128(l.High, l.Low, eH, eL), "session-id-recorded")
		vfReach("accepted")
	}
	vfReach("end")
}

func vfNHOp(id uint64, ni string, idx uint64, elec *spb.Uint128) *spb.AFTOperation {
	return &spb.AFTOperation{Id: id, NetworkInstance: ni, Op: spb.AFTOperation_ADD, ElectionId: elec,
		Entry: &spb.AFTOperation_NextHop{NextHop: &aftpb.Afts_NextHopKey{Index: idx, NextHop: &aftpb.Afts_NextHop{}}}}
}

func vfNHInstalled(r *rib.RIB, ni string, idx uint64) bool {
	h, ok := r.NetworkInstanceRIB(ni)
	if !ok {
		return false
	}
	_, ok = h.GetNextHop(idx)
	return ok
}

// VfC04_doModify: a batch of 1-2 next-hop ADDs arriving on an arbitrary session
// in an arbitrary election state; only the primary's correctly stamped
// operations may reach the RIB.
func VfC04_doModify()  { vfC04DoModify([]string{"A", "B"}, 2) }
func VfC04_doModify3() { vfC04DoModify([]string{"A", "B", "C"}, 3) }

func vfC04DoModify(names []string, maxBatch int) {
	s := &Server{cs: map[string]*clientState{}, masterRIB: rib.New(DefaultNetworkInstanceName)}
	vfSessionsN(s, names)
	has, curH, curL, master := vfElection(s)
	cid := vfStr("cid")
	cs, known := s.cs[cid]

	n := vfInt("batch", 1, maxBatch)
	type opd struct {
		id       uint64
		idx      uint64
		hasE     bool
		eH, eL   uint64
	}
	var ds []opd
	var ops []*spb.AFTOperation
	for i := 0; i < n; i++ {
		d := opd{id: uint64(i + 1), idx: uint64(100 + i), hasE: vfBool("op.hasElection")}
		var e *spb.Uint128
		if d.hasE {
			d.eH, d.eL = vfU64("op.e.hi"), vfU64("op.e.lo")
			e = &spb.Uint128{High: d.eH, Low: d.eL}
		}
		ds = append(ds, d)
		ops = append(ops, vfNHOp(d.id, DefaultNetworkInstanceName, d.idx, e))
	}
	oldCur, oldMaster := s.curElecID, s.curMaster
	var oldLast *spb.Uint128
	if known {
		oldLast = cs.lastElecID
	}

	resCh := make(chan *spb.ModifyResponse, 16)
	errCh := make(chan error, 16)
	s.doModify(cid, ops, resCh, errCh)
	close(resCh)
	close(errCh)
	var results []*spb.AFTResult
	for r := range resCh {
		results = append(results, r.GetResult()...)
	}
	nerr := 0
	for e := range errCh {
		vfAssert(e != nil, "error-channel-carries-errors")
		nerr++
	}

	paramsOK := known && cs.params != nil && cs.params.ExpectElecID && cs.params.Persist
	for _, d := range ds {
		legit := false
		if paramsOK && has && known && oldLast != nil && d.hasE {
			legit = vfAnd(cid == master, vfAnd(eq128(d.eH, d.eL, oldLast.High, oldLast.Low), eq128(d.eH, d.eL, curH, curL)))
		}
		installed := vfNHInstalled(s.masterRIB, DefaultNetworkInstanceName, d.idx)
		vfAssert(installed == legit, "rib-changed-iff-primary-and-correctly-stamped")
		// what was answered for this id
		var okc, failc uint64
		for _, r := range results {
			if r.Id == d.id {
				if r.Status == spb.AFTResult_RIB_PROGRAMMED {
					okc++
				}
				if r.Status == spb.AFTResult_FAILED {
					failc++
				}
			}
		}
		vfAssert(vfImplies(legit, okc == 1 && failc == 0), "primary-operation-acknowledged")
		vfAssert(vfImplies(!legit, okc == 0), "non-primary-or-misstamped-never-acknowledged")
		vfAssert(vfImplies(!legit, vfOr(failc >= 1, nerr >= 1)), "rejected-operation-answered-failed-or-rpc-error")
	}
	vfAssert(s.curElecID == oldCur && s.curMaster == oldMaster, "operations-never-change-election-state")
	if known {
		vfAssert(s.cs[cid].lastElecID == oldLast, "operations-never-change-session-id")
	}
	vfAssert(len(s.masterRIB.VfPendingIDs()) == 0, "no-held-operations")
	vfReach("end")
}

func vfAddNH(r *rib.RIB, ni string, idx uint64) {
	oks, _, err := r.AddEntry(ni, vfNHOp(900+idx, ni, idx, nil))
	if err != nil || len(oks) != 1 {
		panic("cannot seed RIB")
	}
}

// VfC08_flushDecision: the full decision table of Server.Flush - network
// instance selector x election field x server election state.
func VfC08_flushDecision() {
	s := &Server{cs: map[string]*clientState{}, masterRIB: rib.New(DefaultNetworkInstanceName)}
	if err := s.masterRIB.AddNetworkInstance("VRF-A"); err != nil {
		panic(err)
	}
	vfAddNH(s.masterRIB, DefaultNetworkInstanceName, 1)
	vfAddNH(s.masterRIB, "VRF-A", 2)
	has, curH, curL, _ := vfElection(s)

	req := &spb.FlushRequest{}
	sel := vfInt("ni.sel", 0, 2)
	name := ""
	switch sel {
	case 1:
		req.NetworkInstance = &spb.FlushRequest_All{All: &spb.Empty{}}
	case 2:
		name = vfStrK("ni.name", "ni")
		req.NetworkInstance = &spb.FlushRequest_Name{Name: name}
	}
	esel := vfInt("elec.sel", 0, 2)
	var idH, idL uint64
	switch esel {
	case 1:
		req.Election = &spb.FlushRequest_Override{Override: &spb.Empty{}}
	case 2:
		idH, idL = vfU64("id.hi"), vfU64("id.lo")
		req.Election = &spb.FlushRequest_Id{Id: &spb.Uint128{High: idH, Low: idL}}
	}

	resp, err := s.Flush(nil, req)

	inDef := vfNHInstalled(s.masterRIB, DefaultNetworkInstanceName, 1)
	inVRF := vfNHInstalled(s.masterRIB, "VRF-A", 2)
	rejected := func(code codes.Code, reason spb.FlushResponseError_Reason, what string) {
		vfAssert(err != nil, what+":rejected")
		vfAssert(vfStatusCode(err) == uint32(code), what+":code")
		vfAssert(vfStatusReason(err) == int32(reason), what+":reason")
		vfAssert(inDef && inVRF, what+":changes-nothing")
		vfReach(what)
	}
	switch {
	case sel == 0:
		rejected(codes.InvalidArgument, spb.FlushResponseError_UNSPECIFIED_NETWORK_INSTANCE, "no-instance")
		return
	case esel == 1:
		// override: authorised
	case esel == 0 && has:
		rejected(codes.FailedPrecondition, spb.FlushResponseError_UNSPECIFIED_ELECTION_BEHAVIOR, "missing-election-field")
		return
	case esel == 0:
		// no election anywhere: authorised
	case !has:
		rejected(codes.FailedPrecondition, spb.FlushResponseError_ELECTION_ID_IN_ALL_PRIMARY, "unexpected-election-id")
		return
	case idH == 0 && idL == 0:
		rejected(codes.InvalidArgument, spb.FlushResponseError_INVALID_ELECTION_ID, "zero-id")
		return
	case !ge128(idH, idL, curH, curL):
		rejected(codes.FailedPrecondition, spb.FlushResponseError_NOT_PRIMARY, "lower-id")
		return
	}
	// authorised
	if sel == 2 && name != DefaultNetworkInstanceName && name != "VRF-A" {
		rejected(codes.InvalidArgument, spb.FlushResponseError_INVALID_NETWORK_INSTANCE, "unknown-instance")
		return
	}
	vfAssert(err == nil, "authorised-flush-answers-ok")
	if err == nil {
		vfAssert(resp != nil && resp.Result == spb.FlushResponse_OK, "authorised-flush-result-ok")
	}
	wantDef := sel == 1 || name == DefaultNetworkInstanceName
	wantVRF := sel == 1 || name == "VRF-A"
	vfAssert(inDef == !wantDef, "default-instance-emptied-iff-selected")
	vfAssert(inVRF == !wantVRF, "vrf-emptied-iff-selected")
	vfReach("authorised")
	vfReach("end")
}

// vfC04History: sessions A and B (both SINGLE_PRIMARY/PRESERVE) make K election
// announcements in an arbitrary order with arbitrary 128-bit ids; then either
// session sends one operation stamped with an arbitrary id.  The primary and the
// highest learnt id are computed by the harness with true 128-bit ordering
// (not read back from the server), so a wrong ordering anywhere in the election
// path shows up as an operation of a non-primary reaching the RIB.
func vfC04History(k int) {
	s := &Server{cs: map[string]*clientState{}, masterRIB: rib.New(DefaultNetworkInstanceName)}
	for _, c := range []string{"A", "B"} {
		s.cs[c] = &clientState{params: &clientParams{ExpectElecID: true, Persist: true}, setParams: true}
	}
	has := false
	var maxH, maxL uint64
	primary := ""
	lastSet := map[string]bool{}
	lastH, lastL := map[string]uint64{}, map[string]uint64{}
	for i := 0; i < k; i++ {
		x := "A"
		if vfBool("announce.by-B") {
			x = "B"
		}
		h, l := vfU64("announce.hi"), vfU64("announce.lo")
		vfAssume(vfOr(h != 0, l != 0))
		_, err := s.runElection(x, &spb.Uint128{High: h, Low: l})
		vfAssert(err == nil, "C04:valid-announcement-accepted")
		lastSet[x], lastH[x], lastL[x] = true, h, l
		wins := vfOr(!has, ge128(h, l, maxH, maxL))
		maxH, maxL = vfIte64(wins, h, maxH), vfIte64(wins, l, maxL)
		primary = vfIteStr(wins, x, primary)
		has = true
	}
	y := "A"
	if vfBool("op.by-B") {
		y = "B"
	}
	eH, eL := vfU64("op.e.hi"), vfU64("op.e.lo")
	resCh, errCh := make(chan *spb.ModifyResponse, 8), make(chan error, 8)
	s.doModify(y, []*spb.AFTOperation{vfNHOp(1, DefaultNetworkInstanceName, 100, &spb.Uint128{High: eH, Low: eL})}, resCh, errCh)
	legit := false
	if has && lastSet[y] {
		legit = vfAnd(y == primary, vfAnd(eq128(eH, eL, lastH[y], lastL[y]), eq128(eH, eL, maxH, maxL)))
	}
	vfAssert(vfNHInstalled(s.masterRIB, DefaultNetworkInstanceName, 100) == legit, "C04:rib-changed-iff-sent-by-the-true-primary-with-the-highest-id")
	vfReach("end")
}

// vfC04Mixed: K steps, each either an election announcement (session A or B, arbitrary non-zero
// 128-bit id) or ONE operation (session A or B, arbitrary stamp) - operations and announcements
// interleave in every order (e.g. accepted operation, hand-over, stale operation).  After every
// operation the RIB was reached iff the sender is the true primary and the stamp is its last id
// and the highest id (computed by the harness).
func vfC04Mixed(k int) { vfC04MixedD(k, false, "C04:") }

// vfC04MixedD: withDisconnect adds ONE departure of a session (deleteClient, as at the end of its Modify RPC)
// before a symbolic step; the departed session sends nothing afterwards.  A departure changes neither the
// highest id learnt nor who holds it: what the remaining session may do is unchanged.
func vfC04MixedD(k int, withDisconnect bool, lp string) {
	s := &Server{cs: map[string]*clientState{}, masterRIB: rib.New(DefaultNetworkInstanceName)}
	for _, c := range []string{"A", "B"} {
		s.cs[c] = &clientState{params: &clientParams{ExpectElecID: true, Persist: true}, setParams: true}
	}
	has := false
	var maxH, maxL uint64
	primary := ""
	lastSet := map[string]bool{}
	lastH, lastL := map[string]uint64{}, map[string]uint64{}
	ops := 0
	var resps []*spb.ModifyResponse
	var respH, respL []uint64
	gone := map[string]bool{}
	leaveAt, leaver := -1, "A"
	if withDisconnect {
		leaveAt = vfInt("leave.before-step", 0, k-1)
		if vfBool("leave.is-B") {
			leaver = "B"
		}
	}
	for i := 0; i < k; i++ {
		if i == leaveAt {
			s.deleteClient(leaver)
			gone[leaver] = true
			vfReach("departure")
		}
		x := "A"
		if vfBool("step.by-B") {
			x = "B"
		}
		if gone[x] {
			continue
		}
		h, l := vfU64("step.hi"), vfU64("step.lo")
		if vfBool("step.is-op") {
			ops++
			idx := uint64(100 + i)
			resCh, errCh := make(chan *spb.ModifyResponse, 8), make(chan error, 8)
			s.doModify(x, []*spb.AFTOperation{vfNHOp(uint64(i+1), DefaultNetworkInstanceName, idx, &spb.Uint128{High: h, Low: l})}, resCh, errCh)
			legit := false
			if has && lastSet[x] {
				legit = vfAnd(x == primary, vfAnd(eq128(h, l, lastH[x], lastL[x]), eq128(h, l, maxH, maxL)))
			}
			vfAssert(vfNHInstalled(s.masterRIB, DefaultNetworkInstanceName, idx) == legit, lp+"rib-changed-iff-sent-by-the-true-primary-with-the-highest-id")
			continue
		}
		vfAssume(vfOr(h != 0, l != 0))
		resp, err := s.runElection(x, &spb.Uint128{High: h, Low: l})
		vfAssert(err == nil, lp+"valid-announcement-accepted")
		lastSet[x], lastH[x], lastL[x] = true, h, l
		wins := vfOr(!has, ge128(h, l, maxH, maxL))
		maxH, maxL = vfIte64(wins, h, maxH), vfIte64(wins, l, maxL)
		primary = vfIteStr(wins, x, primary)
		has = true
		// (that the response carries the running maximum is decided per step by VfC05_runElection)
		e := resp.GetElectionId()
		if e != nil {
			resps = append(resps, resp)
			respH, respL = append(respH, e.High), append(respL, e.Low)
		}
	}
	// ... and still does after the later announcements (a response is a value of its own, not a view of the
	// server's current election state)
	for i, r := range resps {
		e := r.GetElectionId()
		vfAssert(e != nil && vfAnd(e.High == respH[i], e.Low == respL[i]), lp+"response-unchanged-by-later-announcements")
	}
	if ops > 0 {
		vfReach("with-operation")
	}
	vfReach("end")
}

func VfC04_mixed4() { vfC04Mixed(4) }
func VfC04_mixedLeave3() { vfC04MixedD(3, true, "C04:") }
func VfC04_mixedLeave4() { vfC04MixedD(4, true, "C04:") }

// VfC05_mixed4/5: the same histories judged by C05's statement: who the primary is shows in whose operations are
// accepted after every announcement (ties, repeats, decreases, reads of the election state in between), every
// response carries the running maximum of its moment and keeps it.
func VfC05_mixed4() { vfC04MixedD(4, false, "C05:") }

// VfC05_handover: A announces a, A operates (the election state is READ), B announces b (any id: lower, equal -
// the tie goes to the later announcer -, higher), then B and A each operate with their own id: the primary shows in
// whose operation is accepted; both responses carry the running maximum and are not changed by what follows.
func VfC05_handover() {
	s := &Server{cs: map[string]*clientState{}, masterRIB: rib.New(DefaultNetworkInstanceName)}
	for _, c := range []string{"A", "B"} {
		s.cs[c] = &clientState{params: &clientParams{ExpectElecID: true, Persist: true}, setParams: true}
	}
	aH, aL, bH, bL := vfU64("a.hi"), vfU64("a.lo"), vfU64("b.hi"), vfU64("b.lo")
	vfAssume(vfOr(aH != 0, aL != 0))
	vfAssume(vfOr(bH != 0, bL != 0))
	op := func(c string, id, idx uint64, h, l uint64) bool {
		resCh, errCh := make(chan *spb.ModifyResponse, 8), make(chan error, 8)
		s.doModify(c, []*spb.AFTOperation{vfNHOp(id, DefaultNetworkInstanceName, idx, &spb.Uint128{High: h, Low: l})}, resCh, errCh)
		return vfNHInstalled(s.masterRIB, DefaultNetworkInstanceName, idx)
	}
	ra, err := s.runElection("A", &spb.Uint128{High: aH, Low: aL})
	vfAssert(err == nil && ra.GetElectionId() != nil && eq128(ra.GetElectionId().GetHigh(), ra.GetElectionId().GetLow(), aH, aL), "C05:first-announcement-reported-as-current")
	vfAssert(op("A", 1, 100, aH, aL), "C05:sole-announcer-is-primary")
	rb, err := s.runElection("B", &spb.Uint128{High: bH, Low: bL})
	bWins := ge128(bH, bL, aH, aL)
	mH, mL := vfIte64(bWins, bH, aH), vfIte64(bWins, bL, aL)
	vfAssert(err == nil && rb.GetElectionId() != nil && eq128(rb.GetElectionId().GetHigh(), rb.GetElectionId().GetLow(), mH, mL), "C05:response-carries-the-running-maximum")
	vfAssert(op("B", 2, 200, bH, bL) == bWins, "C05:later-announcer-of-an-id-not-below-the-maximum-is-primary")
	vfAssert(op("A", 3, 300, aH, aL) == !bWins, "C05:lower-id-never-takes-the-primary-role-away")
	if e := ra.GetElectionId(); e != nil {
		vfAssert(eq128(e.High, e.Low, aH, aL), "C05:response-unchanged-by-later-announcements")
	}
	vfReach("end")
}
func VfC05_mixed5() { vfC04MixedD(5, false, "C05:") }

// VfC04_concurrent: two sessions announce different arbitrary ids CONCURRENTLY (every schedule with <= 2
// pre-emptions), then each sends one operation stamped with its own id: the operation of the session with
// the lower id never reaches the RIB, the one of the session with the higher id does.
func VfC04_concurrent() {
	aH, aL := vfU64("a.hi"), vfU64("a.lo")
	bH, bL := vfU64("b.hi"), vfU64("b.lo")
	vfAssume(vfOr(aH != 0, aL != 0))
	vfAssume(vfOr(bH != 0, bL != 0))
	vfAssume(!eq128(aH, aL, bH, bL))
	rounds := 1
	if !vfEngine() {
		rounds = 200000
	}
	for r := 0; r < rounds; r++ {
		s := &Server{cs: map[string]*clientState{}, masterRIB: rib.New(DefaultNetworkInstanceName)}
		for _, c := range []string{"A", "B"} {
			s.cs[c] = &clientState{params: &clientParams{ExpectElecID: true, Persist: true}, setParams: true}
		}
		var wg sync.WaitGroup
		start := make(chan struct{})
		wg.Add(2)
		vfSched(2)
		go func() {
			defer wg.Done()
			<-start
			s.runElection("A", &spb.Uint128{High: aH, Low: aL})
		}()
		go func() {
			defer wg.Done()
			<-start
			s.runElection("B", &spb.Uint128{High: bH, Low: bL})
		}()
		close(start)
		wg.Wait()
		vfSched(0)
		resCh, errCh := make(chan *spb.ModifyResponse, 8), make(chan error, 8)
		s.doModify("A", []*spb.AFTOperation{vfNHOp(1, DefaultNetworkInstanceName, 100, &spb.Uint128{High: aH, Low: aL})}, resCh, errCh)
		s.doModify("B", []*spb.AFTOperation{vfNHOp(2, DefaultNetworkInstanceName, 200, &spb.Uint128{High: bH, Low: bL})}, resCh, errCh)
		aWins := ge128(aH, aL, bH, bL)
		ok := vfAnd(vfNHInstalled(s.masterRIB, DefaultNetworkInstanceName, 100) == aWins, vfNHInstalled(s.masterRIB, DefaultNetworkInstanceName, 200) == !aWins)
		vfAssert(ok, "C04:after-concurrent-announcements-only-the-higher-id-session-changes-the-rib")
		if !ok && !vfEngine() {
			break
		}
	}
	vfReach("end")
}
func VfC04_mixed5() { vfC04Mixed(5) }
func VfC04_history2() { vfC04History(2) }
func VfC04_history3() { vfC04History(3) }
