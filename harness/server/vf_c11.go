//go:build verif

package server

import (
	"sync"

	"github.com/openconfig/gribigo/rib"

	spb "github.com/openconfig/gribi/v1/proto/service"
)

func init() {
	vfRegister("VfC11_lockset", VfC11_lockset)
	vfRegister("VfC11_concurrentElections", VfC11_concurrentElections)
	vfRegister("VfC05_concurrent", VfC05_concurrent)
}

func vfTrackHeap()       {}
func vfRole(name string) {}

// VfC11_lockset: every RPC handler is executed as its own role from one
// shared server state, with symbolic requests; the engine logs each access to
// an object of that state with the locks held and checks the lock discipline
// (Eraser): two accesses of different roles to one location, one a write, must
// hold a common mutex, one of them in write mode.
func VfC11_lockset() {
	vfTrackHeap()
	// either session may be the primary (successive primaries can overlap in time)
	s := vfC11Setup(vfIteStr(vfBool("primary-is-B"), "B", "A"))
	// ONE role per path: the union over paths covers every handler, the product is never built
	role := vfInt("role", 0, 6)
	c := "A"
	if vfBool("session-B") {
		c = "B"
	}
	in := &vfC11In{ack: vfInt("ack", 0, 1), flushElec: vfInt("flush.elec", 0, 2)}
	switch role {
	case 2:
		in.eHi, in.eLo = vfU64("e.hi"), vfU64("e.lo")
	case 3:
		in.op = vfSymReqOp(1, &spb.Uint128{High: vfU64("op.e.hi"), Low: vfU64("op.e.lo")})
	case 6:
		if in.flushElec == 2 {
			in.fHi, in.fLo = vfU64("f.hi"), vfU64("f.lo")
		}
	}
	if role >= 5 {
		// Get / Flush walk the instance map: every iteration order is a path (lock acquisition order)
		vfMapOrder(true)
	}
	vfC11Role(s, role, c, in)
	vfRole("")
	vfReach("end")
}

type vfC11In struct {
	ack        int
	eHi, eLo   uint64
	op         *spb.AFTOperation
	flushElec  int
	fHi, fLo   uint64
}

var vfC11RoleNames = []string{"connect", "params", "election", "operation", "disconnect", "get:all", "flush:any"}

// vfC11Role executes one RPC handler role (shared by the symbolic harness and the native race-pair test).
func vfC11Role(s *Server, role int, c string, in *vfC11In) {
	switch role {
	case 0:
		vfRole("session-" + c + ":connect")
		s.newClient("new-" + c)
	case 1:
		s.newClient("new-" + c)
		vfRole("session-" + c + ":params")
		p := &spb.SessionParameters{Redundancy: spb.SessionParameters_SINGLE_PRIMARY, Persistence: spb.SessionParameters_PRESERVE,
			AckType: spb.SessionParameters_AFTResultStatusType(in.ack)}
		if _, err := s.checkParams("new-"+c, p, false); err == nil {
			s.updateParams("new-"+c, p)
		}
	case 2:
		vfRole("session-" + c + ":election")
		s.runElection(c, &spb.Uint128{High: in.eHi, Low: in.eLo})
	case 3:
		vfRole("session-" + c + ":operation")
		resCh, errCh := make(chan *spb.ModifyResponse, 32), make(chan error, 32)
		s.doModify(c, []*spb.AFTOperation{in.op}, resCh, errCh)
	case 4:
		vfRole("session-" + c + ":disconnect")
		s.deleteClient(c)
	case 5:
		vfRole("get:all")
		msgCh, errCh := make(chan *spb.GetResponse, 64), make(chan error, 8)
		doneCh, stopCh := make(chan struct{}, 1), make(chan struct{}, 1)
		s.doGet(&spb.GetRequest{NetworkInstance: &spb.GetRequest_All{All: &spb.Empty{}}, Aft: spb.AFTType_ALL}, msgCh, doneCh, stopCh, errCh)
	case 6:
		vfRole("flush:any")
		req := &spb.FlushRequest{NetworkInstance: &spb.FlushRequest_All{All: &spb.Empty{}}}
		switch in.flushElec {
		case 1:
			req.Election = &spb.FlushRequest_Override{Override: &spb.Empty{}}
		case 2:
			req.Election = &spb.FlushRequest_Id{Id: &spb.Uint128{High: in.fHi, Low: in.fLo}}
		}
		s.Flush(nil, req)
	}
}

// vfC11Setup: the shared server state of the lock-discipline harness.
func vfC11Setup(primary string) *Server {
	s := &Server{cs: map[string]*clientState{}, masterRIB: rib.New(DefaultNetworkInstanceName)}
	if err := s.masterRIB.AddNetworkInstance("VRF-A"); err != nil {
		panic(err)
	}
	id := &spb.Uint128{High: 1, Low: 1}
	for _, c := range []string{"A", "B"} {
		s.cs[c] = &clientState{params: &clientParams{ExpectElecID: true, Persist: true}, setParams: true, lastElecID: id}
	}
	s.curElecID, s.curMaster = id, primary
	vfC11Seed(s)
	return s
}

func vfC11Seed(s *Server) {
	vfAddNH(s.masterRIB, DefaultNetworkInstanceName, 1)
	vfAddNH(s.masterRIB, "VRF-A", 2)
	for _, o := range []*spb.AFTOperation{
		vfNHGOp(801, DefaultNetworkInstanceName, 1, 1, nil),
		vfNHGOp(802, DefaultNetworkInstanceName, 2, 1, nil),
		vfV4Op(803, DefaultNetworkInstanceName, "1.1.1.1/32", 2, nil),
	} {
		if oks, _, err := s.masterRIB.AddEntry(o.NetworkInstance, o); err != nil || len(oks) != 1 {
			panic("cannot seed RIB")
		}
	}
}

// VfC11_concurrentElections: two sessions announce arbitrary ids concurrently;
// once both calls have returned the reported id must be the larger one and the
// primary a session that announced it - for every schedule within the context
// bound.  Natively (replay) the round is repeated many times behind a barrier,
// because the Go scheduler rarely produces the interleaving on the first try.
func VfC11_concurrentElections() { vfConcurrentElections("C11:quiescent-election-state-is-the-maximum-announced-and-its-announcer", "") }

// VfC05_concurrent: the same two concurrent announcements judged by C05's statement: the quiescent primary /
// current id are the maximum and its announcer, and every response carries an id that is at least the
// announced one and at most the maximum (the running maximum at some moment of the interleaving).
func VfC05_concurrent() {
	vfConcurrentElections("C05:concurrent-announcements-leave-the-maximum-and-its-announcer", "C05:response-carries-a-running-maximum")
}

func vfConcurrentElections(label, respLabel string) {
	aH, aL := vfU64("a.hi"), vfU64("a.lo")
	bH, bL := vfU64("b.hi"), vfU64("b.lo")
	vfAssume(vfOr(aH != 0, aL != 0))
	vfAssume(vfOr(bH != 0, bL != 0))
	rounds := 1
	if !vfEngine() {
		rounds = 300000
	}
	for r := 0; r < rounds; r++ {
		s := &Server{cs: map[string]*clientState{}}
		for _, c := range []string{"A", "B"} {
			s.cs[c] = &clientState{params: &clientParams{ExpectElecID: true, Persist: true}, setParams: true}
		}
		var wg sync.WaitGroup
		var ra, rb *spb.ModifyResponse
		start := make(chan struct{})
		wg.Add(2)
		vfSched(2)
		go func() {
			defer wg.Done()
			<-start
			ra, _ = s.runElection("A", &spb.Uint128{High: aH, Low: aL})
		}()
		go func() {
			defer wg.Done()
			<-start
			rb, _ = s.runElection("B", &spb.Uint128{High: bH, Low: bL})
		}()
		close(start)
		wg.Wait()
		vfSched(0)
		aWins, bWins := ge128(aH, aL, bH, bL), ge128(bH, bL, aH, aL)
		maxH, maxL := vfIte64(aWins, aH, bH), vfIte64(aWins, aL, bL)
		ok := s.curElecID != nil
		if ok {
			ok = vfAnd(eq128(s.curElecID.High, s.curElecID.Low, maxH, maxL),
				vfOr(vfAnd(s.curMaster == "A", aWins), vfAnd(s.curMaster == "B", bWins)))
		}
		vfAssert(ok, label)
		if respLabel != "" {
			okr := ra != nil && rb != nil && ra.GetElectionId() != nil && rb.GetElectionId() != nil
			if okr {
				ea, eb := ra.GetElectionId(), rb.GetElectionId()
				okr = vfAnd(vfAnd(ge128(ea.High, ea.Low, aH, aL), ge128(maxH, maxL, ea.High, ea.Low)),
					vfAnd(ge128(eb.High, eb.Low, bH, bL), ge128(maxH, maxL, eb.High, eb.Low)))
			}
			vfAssert(okr, respLabel)
			ok = ok && okr
		}
		if !ok && !vfEngine() {
			break
		}
	}
	vfReach("end")
}
