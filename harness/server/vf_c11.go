//go:build verif

package server

import (
	"github.com/openconfig/gribigo/rib"

	spb "github.com/openconfig/gribi/v1/proto/service"
)

func init() { vfRegister("VfC11_lockset", VfC11_lockset) }

func vfTrackHeap()       {}
func vfRole(name string) {}

// VfC11_lockset: every RPC handler is executed as its own role from one
// shared server state, with symbolic requests; the engine logs each access to
// an object of that state with the locks held and checks the lock discipline
// (Eraser): two accesses of different roles to one location, one a write, must
// hold a common mutex, one of them in write mode.
func VfC11_lockset() {
	vfTrackHeap()
	s := &Server{cs: map[string]*clientState{}, masterRIB: rib.New(DefaultNetworkInstanceName)}
	if err := s.masterRIB.AddNetworkInstance("VRF-A"); err != nil {
		panic(err)
	}
	id := &spb.Uint128{High: 1, Low: 1}
	for _, c := range []string{"A", "B"} {
		s.cs[c] = &clientState{params: &clientParams{ExpectElecID: true, Persist: true}, setParams: true, lastElecID: id}
	}
	// either session may be the primary (successive primaries can overlap in time)
	s.curElecID, s.curMaster = id, vfIteStr(vfBool("primary-is-B"), "B", "A")
	vfAddNH(s.masterRIB, DefaultNetworkInstanceName, 1)
	vfAddNH(s.masterRIB, "VRF-A", 2)
	// an unreferenced group and a referenced one, so that deletes / replaces reach the reference counters
	for _, o := range []*spb.AFTOperation{
		vfNHGOp(801, DefaultNetworkInstanceName, 1, 1, nil),
		vfNHGOp(802, DefaultNetworkInstanceName, 2, 1, nil),
		vfV4Op(803, DefaultNetworkInstanceName, "1.1.1.1/32", 2, nil),
	} {
		if oks, _, err := s.masterRIB.AddEntry(o.NetworkInstance, o); err != nil || len(oks) != 1 {
			panic("cannot seed RIB")
		}
	}

	// ONE role per path: the union over paths covers every handler, the product is never built
	role := vfInt("role", 0, 6)
	c := "A"
	if vfBool("session-B") {
		c = "B"
	}
	switch role {
	case 0:
		vfRole("session-" + c + ":connect")
		s.newClient("new-" + c)
	case 1:
		s.newClient("new-" + c)
		vfRole("session-" + c + ":params")
		p := &spb.SessionParameters{Redundancy: spb.SessionParameters_SINGLE_PRIMARY, Persistence: spb.SessionParameters_PRESERVE,
			AckType: spb.SessionParameters_AFTResultStatusType(vfInt("ack", 0, 1))}
		if _, err := s.checkParams("new-"+c, p, false); err == nil {
			s.updateParams("new-"+c, p)
		}
	case 2:
		vfRole("session-" + c + ":election")
		s.runElection(c, &spb.Uint128{High: vfU64("e.hi"), Low: vfU64("e.lo")})
	case 3:
		vfRole("session-" + c + ":operation")
		resCh, errCh := make(chan *spb.ModifyResponse, 32), make(chan error, 32)
		s.doModify(c, []*spb.AFTOperation{vfSymReqOp(1, &spb.Uint128{High: vfU64("op.e.hi"), Low: vfU64("op.e.lo")})}, resCh, errCh)
	case 4:
		vfRole("session-" + c + ":disconnect")
		s.deleteClient(c)
	case 5:
		vfRole("get:all")
		msgCh, errCh := make(chan *spb.GetResponse, 64), make(chan error, 8)
		doneCh, stopCh := make(chan struct{}, 1), make(chan struct{}, 1)
		s.doGet(&spb.GetRequest{NetworkInstance: &spb.GetRequest_All{All: &spb.Empty{}}, Aft: spb.AFTType_ALL}, msgCh, doneCh, stopCh, errCh)
	case 6:
		vfRole("flush:any")
		req := &spb.FlushRequest{NetworkInstance: &spb.FlushRequest_All{All: &spb.Empty{}}}
		switch vfInt("flush.elec", 0, 2) {
		case 1:
			req.Election = &spb.FlushRequest_Override{Override: &spb.Empty{}}
		case 2:
			req.Election = &spb.FlushRequest_Id{Id: &spb.Uint128{High: vfU64("f.hi"), Low: vfU64("f.lo")}}
		}
		s.Flush(nil, req)
	}
	vfRole("")
	vfReach("end")
}
