//go:build verif

package server

import (
	aftpb "github.com/openconfig/gribi/v1/proto/gribi_aft"
	spb "github.com/openconfig/gribi/v1/proto/service"
	wpb "github.com/openconfig/ygot/proto/ywrapper"
)

func init() {
	vfRegister("VfC06_cascade8", VfC06_cascade8)
	vfRegister("VfC06_heldAcrossElection", VfC06_heldAcrossElection)
	vfRegister("VfC06_doModify", VfC06_doModify)
	vfRegister("VfC06_handover", VfC06_handover)
	vfRegister("VfC06_halfClose", VfC06_halfClose)
	vfRegister("VfC06_manyHeld40", VfC06_manyHeld40)
	vfRegister("VfC06_manyHeld300", VfC06_manyHeld300)
}

// vfManyHeld: scale bound - the primary has N held operations (groups 1000+i each waiting for
// next-hop 5000+i), then sends one symbolic operation (any kind; a next-hop ADD may resolve any
// ONE of the held groups, or none).  Per-id verdict counting over everything the call emits.
func vfManyHeld(n int) {
	s, id := vfPrimaryServer()
	fibAck := vfBool("fib-ack")
	s.cs["A"].params.FIBAck = fibAck
	var heldPre []uint64
	for i := 0; i < n; i++ {
		resCh, errCh := make(chan *spb.ModifyResponse, 4), make(chan error, 4)
		s.doModify("A", []*spb.AFTOperation{vfNHGOp(uint64(10000+i), DefaultNetworkInstanceName, uint64(1000+i), uint64(5000+i), id)}, resCh, errCh)
		res, nerr := vfDrain(resCh, errCh)
		if len(res) != 0 || nerr != 0 {
			vfAssert(false, "C06:forward-reference-is-held-silently")
			return
		}
		heldPre = append(heldPre, uint64(10000+i))
	}
	vfReach("pre-built")
	op := vfSymReqOp(1, id)
	resCh, errCh := make(chan *spb.ModifyResponse, 2*n+8), make(chan error, 8)
	s.doModify("A", []*spb.AFTOperation{op}, resCh, errCh)
	results, nerr := vfDrain(resCh, errCh)
	heldPost := s.masterRIB.VfPendingIDs()
	vfCheckAnswers(results, nerr, []uint64{1}, heldPre, heldPost, fibAck)
	if len(heldPost) < n {
		vfReach("resolved-one")
	}
	vfReach("end")
}

func VfC06_manyHeld40() { vfManyHeld(40) }
func VfC06_manyHeld300() { vfManyHeld(300) }

func vfDrain(resCh chan *spb.ModifyResponse, errCh chan error) (results []*spb.AFTResult, nerr int) {
	close(resCh)
	close(errCh)
	for r := range resCh {
		results = append(results, r.GetResult()...)
	}
	for range errCh {
		nerr++
	}
	return
}

func vfNHGOp(id uint64, ni string, gid, member uint64, elec *spb.Uint128) *spb.AFTOperation {
	return &spb.AFTOperation{Id: id, NetworkInstance: ni, Op: spb.AFTOperation_ADD, ElectionId: elec,
		Entry: &spb.AFTOperation_NextHopGroup{NextHopGroup: &aftpb.Afts_NextHopGroupKey{Id: gid, NextHopGroup: &aftpb.Afts_NextHopGroup{
			NextHop: []*aftpb.Afts_NextHopGroup_NextHopKey{{Index: member, NextHop: &aftpb.Afts_NextHopGroup_NextHop{}}}}}}}
}

func vfV4Op(id uint64, ni, pfx string, nhg uint64, elec *spb.Uint128) *spb.AFTOperation {
	return &spb.AFTOperation{Id: id, NetworkInstance: ni, Op: spb.AFTOperation_ADD, ElectionId: elec,
		Entry: &spb.AFTOperation_Ipv4{Ipv4: &aftpb.Afts_Ipv4EntryKey{Prefix: pfx, Ipv4Entry: &aftpb.Afts_Ipv4Entry{NextHopGroup: &wpb.UintValue{Value: nhg}}}}}
}

// vfSymReqOp: a symbolic operation of the request: kind, type, instance name, key and reference are symbolic.
func vfSymReqOp(id uint64, elec *spb.Uint128) *spb.AFTOperation {
	ni := vfStrK("op.ni", "ni")
	var op *spb.AFTOperation
	switch vfInt("op.kind", 0, 2) {
	case 0:
		op = vfNHOp(id, ni, vfU64("op.nh.idx"), elec)
	case 1:
		op = vfNHGOp(id, ni, vfU64("op.nhg.id"), vfU64("op.nhg.member"), elec)
	default:
		op = vfV4Op(id, ni, "9.9.9.9/32", vfU64("op.v4.nhg"), elec)
	}
	switch vfInt("op.type", 1, 3) {
	case 2:
		op.Op = spb.AFTOperation_REPLACE
	case 3:
		op.Op = spb.AFTOperation_DELETE
	}
	return op
}

// vfCheckAnswers: the per-call part of C06 over the stream of results of one doModify call.
func vfCheckAnswers(results []*spb.AFTResult, nerr int, reqIDs, heldPre []uint64, heldPost []uint64, fibAck bool) {
	in := func(xs []uint64, id uint64) bool {
		for _, x := range xs {
			if x == id {
				return true
			}
		}
		return false
	}
	type cnt struct{ failed, rib, fib int }
	cs := map[uint64]*cnt{}
	for i, r := range results {
		vfAssert(in(reqIDs, r.Id) || in(heldPre, r.Id), "C06:result-id-was-sent-on-this-stream")
		c := cs[r.Id]
		if c == nil {
			c = &cnt{}
			cs[r.Id] = c
		}
		switch r.Status {
		case spb.AFTResult_FAILED:
			c.failed++
		case spb.AFTResult_RIB_PROGRAMMED:
			c.rib++
			if fibAck {
				vfAssert(i+1 < len(results) && results[i+1].Id == r.Id && results[i+1].Status == spb.AFTResult_FIB_PROGRAMMED, "C06:fib-ack-follows-its-rib-ack")
			}
		case spb.AFTResult_FIB_PROGRAMMED:
			c.fib++
			vfAssert(fibAck, "C06:no-fib-ack-unless-negotiated")
			vfAssert(i > 0 && results[i-1].Id == r.Id && results[i-1].Status == spb.AFTResult_RIB_PROGRAMMED, "C06:fib-ack-never-before-rib-ack")
		default:
			vfAssert(false, "C06:unexpected-result-status")
		}
	}
	for id, c := range cs {
		vfAssert(c.failed <= 1, "C06:at-most-one-failed-verdict-per-operation")
		vfAssert(c.rib <= 1 && c.fib <= 1, "C06:at-most-one-programmed-verdict-per-operation")
		vfAssert(!(c.failed > 0 && c.rib > 0), "C06:never-both-failed-and-programmed")
		vfAssert(!in(heldPost, id), "C06:answered-operation-is-no-longer-held")
	}
	for _, id := range reqIDs {
		answered := cs[id] != nil
		held := in(heldPost, id)
		vfAssert(answered || held || nerr > 0, "C06:operation-answered-or-held-or-rpc-error")
		vfAssert(!(answered && held), "C06:operation-not-both-answered-and-held")
	}
}

// VfC06_doModify: the elected primary (FIB acknowledgement on or off) has one held
// operation; it sends a request of 1-2 symbolic operations.
func VfC06_doModify() {
	s, id := vfPrimaryServer()
	fibAck := vfBool("fib-ack")
	s.cs["A"].params.FIBAck = fibAck
	// a held operation of this session: group 9 waiting for a next-hop that is not installed
	var heldPre []uint64
	if vfBool("held.live") {
		m := vfU64("held.member")
		resCh, errCh := make(chan *spb.ModifyResponse, 16), make(chan error, 16)
		s.doModify("A", []*spb.AFTOperation{vfNHGOp(50, DefaultNetworkInstanceName, 9, m, id)}, resCh, errCh)
		res, nerr := vfDrain(resCh, errCh)
		vfAssume(len(res) == 0 && nerr == 0)
		heldPre = []uint64{50}
	}
	n := vfInt("batch", 1, 2)
	var ops []*spb.AFTOperation
	var reqIDs []uint64
	for i := 0; i < n; i++ {
		ops = append(ops, vfSymReqOp(uint64(i+1), id))
		reqIDs = append(reqIDs, uint64(i+1))
	}
	resCh, errCh := make(chan *spb.ModifyResponse, 32), make(chan error, 32)
	s.doModify("A", ops, resCh, errCh)
	results, nerr := vfDrain(resCh, errCh)
	vfCheckAnswers(results, nerr, reqIDs, heldPre, s.masterRIB.VfPendingIDs(), fibAck)
	vfReach("end")
}

// VfC06_handover: session A holds an operation, then B wins the election and
// sends an operation that resolves it: B's stream must not carry A's id.
func VfC06_handover() {
	s, idA := vfPrimaryServer()
	m := vfU64("held.member")
	resCh, errCh := make(chan *spb.ModifyResponse, 16), make(chan error, 16)
	s.doModify("A", []*spb.AFTOperation{vfNHGOp(50, DefaultNetworkInstanceName, 9, m, idA)}, resCh, errCh)
	res, nerr := vfDrain(resCh, errCh)
	vfAssume(len(res) == 0 && nerr == 0)
	// B connects with the same parameters and a higher id
	s.cs["B"] = &clientState{params: &clientParams{ExpectElecID: true, Persist: true}, setParams: true}
	idB := &spb.Uint128{High: 1, Low: 2}
	_, err := s.runElection("B", idB)
	vfAssume(err == nil)
	resCh, errCh = make(chan *spb.ModifyResponse, 16), make(chan error, 16)
	s.doModify("B", []*spb.AFTOperation{vfNHOp(1, DefaultNetworkInstanceName, vfU64("b.nh.idx"), idB)}, resCh, errCh)
	results, _ := vfDrain(resCh, errCh)
	for _, r := range results {
		vfAssertK(r.Id == 1, "C06:result-id-was-sent-on-this-stream", "KF-C06-held-op-answered-on-new-primary-stream", true)
	}
	vfReach("end")
}

// VfC06_halfClose: a client sends its session parameters, an election id and one
// operation and half-closes at once; every answer must have been written to the
// stream when the RPC returns - for every schedule of the RPC's goroutines within
// the context bound.
func VfC06_halfClose() {
	s := &Server{cs: map[string]*clientState{}, masterRIB: rib0()}
	id := &spb.Uint128{High: 1, Low: 5}
	st := &vfModStream{msgs: []*spb.ModifyRequest{
		vfParamsMsg(),
		{ElectionId: id},
		{Operation: []*spb.AFTOperation{vfNHOp(1, DefaultNetworkInstanceName, 1, id)}},
	}}
	vfSched(2)
	err := s.Modify(st)
	vfSched(0)
	n := len(st.sent) // what the stream carried when the RPC returned
	vfAssert(err == nil, "C06:clean-session-ends-ok")
	vfAssert(n == 3, "C06:every-answer-written-before-the-rpc-returns")
	vfReach("end")
}

// VfC06_heldAcrossElection: an operation of the primary is held (group waiting for a next-hop); the SAME session
// then announces an election id that is higher than or equal to its own (it stays the primary), and finally
// sends the operation that resolves the held one, stamped with the id it announced last: both operations are
// answered - the held one is neither lost nor answered twice - and both are installed.
func VfC06_heldAcrossElection() {
	s, id := vfPrimaryServer()
	fib := vfBool("fib-ack")
	s.cs["A"].params.FIBAck = fib
	member := vfU64("member")
	vfAssume(member != 0)
	vfAssume(member != 1) // next-hop 1 is installed: the group must wait for another one
	send := func(ops ...*spb.AFTOperation) ([]*spb.AFTResult, int) {
		resCh, errCh := make(chan *spb.ModifyResponse, 64), make(chan error, 16)
		s.doModify("A", ops, resCh, errCh)
		return vfDrain(resCh, errCh)
	}
	r1, e1 := send(vfNHGOp(10, DefaultNetworkInstanceName, 50, member, id))
	vfAssert(len(r1) == 0 && e1 == 0, "C06:operation-with-a-missing-reference-is-held-not-answered")
	// the primary re-announces: any id >= its current one
	nid := &spb.Uint128{High: vfU64("new.hi"), Low: vfU64("new.lo")}
	vfAssume(ge128(nid.High, nid.Low, id.High, id.Low))
	resp, err := s.runElection("A", nid)
	vfAssert(err == nil && resp != nil, "C06:re-announcement-accepted")
	vfAssert(s.curMaster == "A", "C06:re-announcing-primary-stays-primary")
	r2, e2 := send(vfNHOp(11, DefaultNetworkInstanceName, member, nid))
	vfAssert(e2 == 0, "C06:no-rpc-error")
	n10, n11, nfail := 0, 0, 0
	for _, x := range r2 {
		if x.Status == spb.AFTResult_RIB_PROGRAMMED {
			if x.Id == 10 {
				n10++
			}
			if x.Id == 11 {
				n11++
			}
		}
		if x.Status == spb.AFTResult_FAILED {
			nfail++
		}
	}
	vfAssert(n11 == 1, "C06:resolving-operation-acknowledged-once")
	vfAssert(n10 == 1, "C06:held-operation-answered-once-when-it-becomes-resolvable")
	vfAssert(nfail == 0, "C06:nothing-failed")
	vfAssert(len(s.masterRIB.VfPendingIDs()) == 0, "C06:nothing-left-held")
	vfReach("end")
}

// VfC06_cascade8: ONE operation resolves NINE held ones (eight IPv4 entries and the group they wait for, itself
// waiting for a next-hop), FIB-ack on/off: 10 operations, up to 20 results in one answer - every id exactly once
// per status, RIB_PROGRAMMED before FIB_PROGRAMMED for every id, nothing left held.
func VfC06_cascade8() {
	s, id := vfPrimaryServer()
	fib := vfBool("fib-ack")
	s.cs["A"].params.FIBAck = fib
	nh := vfU64("nh")
	vfAssume(nh != 0)
	vfAssume(nh != 1)
	send := func(ops ...*spb.AFTOperation) ([]*spb.AFTResult, int) {
		resCh, errCh := make(chan *spb.ModifyResponse, 256), make(chan error, 16)
		s.doModify("A", ops, resCh, errCh)
		return vfDrain(resCh, errCh)
	}
	var held []uint64
	r0, e0 := send(vfNHGOp(10, DefaultNetworkInstanceName, 50, nh, id))
	held = append(held, 10)
	pfx := []string{"10.0.0.1/32", "10.0.0.2/32", "10.0.0.3/32", "10.0.0.4/32", "10.0.0.5/32", "10.0.0.6/32", "10.0.0.7/32", "10.0.0.8/32"}
	n := len(r0)
	for i, p := range pfx {
		r, e := send(vfV4Op(uint64(20+i), DefaultNetworkInstanceName, p, 50, id))
		n += len(r) + e
		held = append(held, uint64(20+i))
	}
	vfAssert(n == 0 && e0 == 0, "C06:operation-with-a-missing-reference-is-held-not-answered")
	res, nerr := send(vfNHOp(11, DefaultNetworkInstanceName, nh, id))
	vfCheckAnswers(res, nerr, []uint64{11}, held, nil, fib)
	want := 10
	if fib {
		want = 20
	}
	vfAssert(len(res) == want, "C06:every-resolved-operation-answered-in-the-same-call")
	vfAssert(len(s.masterRIB.VfPendingIDs()) == 0, "C06:nothing-left-held")
	vfReach("end")
}
