//go:build verif

package server

import (
	spb "github.com/openconfig/gribi/v1/proto/service"
)

func init() { vfRegister("VfC05_isNewMaster", VfC05_isNewMaster) }

// ge128 is the unsigned 128-bit comparison a >= b, high word first.
func ge128(aH, aL, bH, bL uint64) bool {
	return vfOr(aH > bH, vfAnd(aH == bH, aL >= bL))
}

// VfC05_isNewMaster: isNewMaster(c,e) for all 2^256 pairs.
func VfC05_isNewMaster() {
	c := &spb.Uint128{High: vfU64("c.hi"), Low: vfU64("c.lo")}
	e := &spb.Uint128{High: vfU64("e.hi"), Low: vfU64("e.lo")}
	nm, same, err := isNewMaster(c, e)
	vfAssert(err == nil, "no-error")
	vfAssert(nm == ge128(c.High, c.Low, e.High, e.Low), "new-master-iff-cand>=exist-128bit")
	vfAssert(same == vfAnd(c.High == e.High, c.Low == e.Low), "same-flag-iff-equal")
	vfReach("end")
}
