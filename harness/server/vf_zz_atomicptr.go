//go:build verif

package server

import "sync/atomic"

func init() { vfRegister("VfSelf_atomicPointer", VfSelf_atomicPointer) }

type vfAP struct{ v uint64 }

// VfSelf_atomicPointer: engine self-test - sync/atomic.Pointer[T] keeps what was stored.
func VfSelf_atomicPointer() {
	var p atomic.Pointer[vfAP]
	vfAssert(p.Load() == nil, "self:atomic-pointer-starts-nil")
	x := &vfAP{v: vfU64("x")}
	p.Store(x)
	got := p.Load()
	vfAssert(got == x && got != nil && got.v == x.v, "self:atomic-pointer-load-returns-stored")
	y := &vfAP{v: 7}
	vfAssert(p.CompareAndSwap(x, y) && p.Load() == y, "self:atomic-pointer-cas")
	vfAssert(p.Swap(nil) == y && p.Load() == nil, "self:atomic-pointer-swap")
	vfReach("end")
}
