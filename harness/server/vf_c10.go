//go:build verif

package server

import (
	"errors"
	"io"
	"time"

	"github.com/openconfig/gribigo/rib"
	"google.golang.org/grpc/codes"
	"google.golang.org/grpc/status"

	spb "github.com/openconfig/gribi/v1/proto/service"
)

func init() {
	vfRegister("VfC10_modifyCut", VfC10_modifyCut)
	vfRegister("VfC10_modifyCutSched", VfC10_modifyCutSched)
	vfRegister("VfC10_getCut", VfC10_getCut)
	vfRegister("VfC10_getCutSched", VfC10_getCutSched)
}

// vfFaultyModStream: a scripted Modify stream that is cut off after cutAfter
// messages (Recv then returns recvErr) and whose Send fails from response
// index sendFailAt on (-1: never).
type vfFaultyModStream struct {
	vfModStream
	cutAfter   int
	sendFailAt int
	// over: the RPC handler has returned; as with a real transport, nothing more is delivered
	over bool
}

func (s *vfFaultyModStream) Recv() (*spb.ModifyRequest, error) {
	if s.over {
		return nil, status.Error(codes.Canceled, "context canceled")
	}
	if s.pos >= s.cutAfter || s.pos >= len(s.msgs) {
		if s.recvErr != nil {
			return nil, s.recvErr
		}
		return nil, io.EOF
	}
	m := s.msgs[s.pos]
	s.pos++
	return m, nil
}

func (s *vfFaultyModStream) Send(r *spb.ModifyResponse) error {
	if s.sendFailAt >= 0 && len(s.sent) >= s.sendFailAt {
		return status.Error(codes.Unavailable, "transport is closing")
	}
	s.sent = append(s.sent, r)
	return nil
}

func vfParamsMsg() *spb.ModifyRequest {
	return &spb.ModifyRequest{Params: &spb.SessionParameters{Redundancy: spb.SessionParameters_SINGLE_PRIMARY, Persistence: spb.SessionParameters_PRESERVE}}
}

// vfProbe: after the fault the server must be fully serviceable: a new session
// negotiates, wins the election with a higher id, has an ADD acknowledged, and
// Get and Flush are answered.
func vfProbe(s *Server, elecLow uint64, wantNH []uint64) {
	id := &spb.Uint128{High: 9, Low: elecLow}
	st := &vfModStream{msgs: []*spb.ModifyRequest{
		vfParamsMsg(),
		{ElectionId: id},
		{Operation: []*spb.AFTOperation{vfNHOp(1, DefaultNetworkInstanceName, 77, id)}},
	}}
	err := s.Modify(st)
	vfAssert(err == nil, "C10:new-session-after-fault-completes")
	vfAssert(len(st.sent) == 3, "C10:new-session-gets-every-answer")
	if len(st.sent) == 3 {
		vfAssert(st.sent[0].GetSessionParamsResult() != nil, "C10:new-session-negotiates")
		e := st.sent[1].GetElectionId()
		vfAssert(e != nil && e.High == 9 && e.Low == elecLow, "C10:new-session-wins-election")
		r := st.sent[2].GetResult()
		vfAssert(len(r) == 1 && r[0].Status == spb.AFTResult_RIB_PROGRAMMED, "C10:new-session-operation-acknowledged")
	}
	vfAssert(vfNHInstalled(s.masterRIB, DefaultNetworkInstanceName, 77), "C10:new-session-operation-installed")
	gs := &vfGetStream{failAt: -1}
	gerr := s.Get(&spb.GetRequest{NetworkInstance: &spb.GetRequest_All{All: &spb.Empty{}}, Aft: spb.AFTType_NEXTHOP}, gs)
	vfAssert(gerr == nil, "C10:get-after-fault-completes")
	vfAssert(len(gs.sent) == len(wantNH)+1, "C10:get-after-fault-returns-installed-entries")
	_, ferr := s.Flush(nil, &spb.FlushRequest{NetworkInstance: &spb.FlushRequest_All{All: &spb.Empty{}}, Election: &spb.FlushRequest_Id{Id: id}})
	vfAssert(ferr == nil, "C10:flush-after-fault-completes")
	vfReach("probe-done")
}

func vfModifyCut(sched int) {
	s := &Server{cs: map[string]*clientState{}, masterRIB: rib0()}
	// what an earlier session programmed (persistence PRESERVE): must survive whatever happens to this session
	vfAddNH(s.masterRIB, DefaultNetworkInstanceName, 50)
	id := &spb.Uint128{High: 1, Low: 5}
	script := []*spb.ModifyRequest{
		vfParamsMsg(),
		{ElectionId: id},
		{Operation: []*spb.AFTOperation{vfNHOp(1, DefaultNetworkInstanceName, 1, id)}},
		{Operation: []*spb.AFTOperation{vfNHOp(2, DefaultNetworkInstanceName, 2, id), vfNHOp(3, DefaultNetworkInstanceName, 3, id)}},
	}
	st := &vfFaultyModStream{vfModStream: vfModStream{msgs: script}, cutAfter: len(script), sendFailAt: -1}
	// optionally a standby session is attached: it negotiated and announced an arbitrary LOWER id earlier
	// (so it was the primary until the session under test announced its id)
	standby := vfBool("standby-attached")
	var bid *spb.Uint128
	if standby {
		bid = &spb.Uint128{High: vfU64("standby.hi"), Low: vfU64("standby.lo")}
		vfAssume(vfOr(bid.High != 0, bid.Low != 0))
		vfAssume(vfOr(bid.High < id.High, vfAnd(bid.High == id.High, bid.Low < id.Low)))
		s.cs["B"] = &clientState{params: &clientParams{ExpectElecID: true, Persist: true}, setParams: true, lastElecID: bid}
		s.curElecID, s.curMaster = &spb.Uint128{High: bid.High, Low: bid.Low}, "B"
	}
	if vfBool("send-fault") {
		st.sendFailAt = vfInt("send-fail-at", 0, 4)
	} else {
		st.cutAfter = vfInt("cut-after", 0, 4)
		switch vfInt("cut-mode", 0, 2) {
		case 1:
			st.recvErr = status.Error(codes.Canceled, "context canceled")
		case 2:
			st.recvErr = errors.New("transport failure")
		}
		// a dying transport usually fails in both directions: the pending responses cannot be written either
		if st.recvErr != nil && vfBool("sends-fail-too") {
			st.sendFailAt = vfInt("send-fail-at", 0, 4)
		}
	}
	if sched > 0 {
		vfSched(sched)
	}
	err := s.Modify(st)
	st.over = true
	vfSched(0)
	// let whatever the handler left behind finish (it must not be able to block the server)
	vfSettle()
	if st.sendFailAt < 0 && st.recvErr == nil {
		vfAssert(err == nil, "C10:clean-half-close-ends-ok")
	}
	// PRESERVE: what was programmed before the cut stays, nothing else appears; the session's footprint is gone
	if standby {
		vfAssert(len(s.cs) == 1 && s.cs["B"] != nil, "C10:disconnected-session-removed")
		// the departure of a session does not move the election: the highest id learnt stays, the standby is
		// not promoted
		if st.pos >= 2 && sched == 0 {
			vfAssert(s.curElecID != nil && vfAnd(s.curElecID.High == 1, s.curElecID.Low == 5), "C10:disconnect-leaves-election-state-unchanged")
			vfAssert(s.curMaster != "B", "C10:disconnect-leaves-election-state-unchanged")
		} else if st.pos >= 2 {
			// under pre-emption a message that was received may not have been processed when the handler returned:
			// the election state is the one before or the one after the announcement, as a whole
			isNew := s.curElecID != nil && vfAnd(s.curElecID.High == 1, s.curElecID.Low == 5)
			isOld := s.curElecID != nil && vfAnd(s.curElecID.High == bid.High, s.curElecID.Low == bid.Low)
			vfAssert(vfOr(vfAnd(isNew, s.curMaster != "B"), vfAnd(isOld, s.curMaster == "B")), "C10:disconnect-leaves-election-state-unchanged")
		} else {
			vfAssert(s.curElecID != nil && vfAnd(s.curElecID.High == bid.High, s.curElecID.Low == bid.Low), "C10:disconnect-leaves-election-state-unchanged")
			vfAssert(s.curMaster == "B", "C10:disconnect-leaves-election-state-unchanged")
		}
		vfReach("with-standby")
	} else {
		vfAssert(len(s.cs) == 0, "C10:disconnected-session-removed")
	}
	var have []uint64
	for _, idx := range []uint64{1, 2, 3} {
		if vfNHInstalled(s.masterRIB, DefaultNetworkInstanceName, idx) {
			have = append(have, idx)
			need := int(idx) + 2
			if idx == 3 {
				need = 4 // operations 2 and 3 travel in the same (fourth) message
			}
			vfAssert(st.pos >= need, "C10:only-received-operations-are-programmed")
		}
	}
	if s.curElecID != nil && !standby {
		vfAssert(st.pos >= 2 && s.curElecID.High == 1 && s.curElecID.Low == 5, "C10:election-id-only-from-received-announcements")
	}
	if st.sendFailAt < 0 && st.pos >= 2 {
		vfAssert(s.curElecID != nil, "C10:learnt-election-id-kept")
	}
	vfAssert(vfNHInstalled(s.masterRIB, DefaultNetworkInstanceName, 50), "C10:entries-of-earlier-sessions-preserved")
	have = append(have, 50)
	vfReach("cut-done")
	vfProbe(s, 1, have)
	vfReach("end")
}

func VfC10_modifyCut()      { vfModifyCut(0) }
func VfC10_modifyCutSched() { vfModifyCut(2) }

func vfGetCut(sched int) {
	s, id := vfPrimaryServer()
	_ = id
	for _, idx := range []uint64{2, 3} {
		vfAddNH(s.masterRIB, DefaultNetworkInstanceName, idx)
	}
	// the reader goes away after receiving k responses
	gs := &vfGetStream{failAt: vfInt("get-cut-after", 0, 3), err: status.Error(codes.Canceled, "client went away")}
	if sched > 0 {
		vfSched(sched)
	}
	err := s.Get(&spb.GetRequest{NetworkInstance: &spb.GetRequest_All{All: &spb.Empty{}}, Aft: spb.AFTType_NEXTHOP}, gs)
	vfSched(0)
	vfSettle()
	if gs.failAt < 3 {
		vfAssert(err != nil, "C10:abandoned-get-ends-with-error")
	}
	vfReach("cut-done")
	// installed entries unchanged, server serviceable (a write to the instance must not hang)
	for _, idx := range []uint64{1, 2, 3} {
		vfAssert(vfNHInstalled(s.masterRIB, DefaultNetworkInstanceName, idx), "C10:abandoned-get-changes-nothing")
	}
	vfProbe(s, 2, []uint64{1, 2, 3})
	vfReach("end")
}

func VfC10_getCut()      { vfGetCut(0) }
func VfC10_getCutSched() { vfGetCut(2) }

func rib0() *rib.RIB { return rib.New(DefaultNetworkInstanceName) }

// vfSettle lets goroutines left behind by a finished RPC run until none can make progress
// (engine: scheduler quiescence; natively: a short pause).
func vfSettle() {
	if vfEngine() {
		vfQuiesce()
		return
	}
	time.Sleep(30 * time.Millisecond)
}
