//go:build verif

package server

import (
	"github.com/openconfig/gribigo/constants"
	"github.com/openconfig/ygot/ygot"
)

func init() { vfRegister("VfC16_serverHooks", VfC16_serverHooks) }

// VfC16_serverHooks: whatever the order of the options and whenever a network
// instance is created, a change in any instance reaches the registered hook.
func VfC16_serverHooks() {
	seen := map[string]int{}
	hook := WithPostChangeRIBHook(func(op constants.OpType, ts int64, ni string, data ygot.ValidatedGoStruct) {
		seen[ni]++
	})
	vrfs := WithVRFs([]string{"VRF-A"})
	var s *Server
	var err error
	if vfBool("hook-option-first") {
		s, err = New(hook, vrfs)
	} else {
		s, err = New(vrfs, hook)
	}
	if err != nil {
		panic(err)
	}
	if err := s.AddNetworkInstance("VRF-B"); err != nil {
		panic(err)
	}
	for i, ni := range []string{DefaultNetworkInstanceName, "VRF-A", "VRF-B"} {
		oks, _, err := s.masterRIB.AddEntry(ni, vfNHOp(uint64(i+1), ni, vfU64("idx"), nil))
		vfAssume(err == nil && len(oks) == 1)
		vfAssert(seen[ni] == 1, "C16:change-in-every-instance-is-notified")
	}
	vfReach("end")
}
