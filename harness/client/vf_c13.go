//go:build verif

package client

import (
	"context"
	"io"
	"os"
	"time"

	"github.com/openconfig/gribigo/constants"

	aftpb "github.com/openconfig/gribi/v1/proto/gribi_aft"
	spb "github.com/openconfig/gribi/v1/proto/service"
)

func init() {
	vfRegister("VfC13_recvViolation", VfC13_recvViolation)
	vfRegister("VfC13_accounting_q", VfC13_accounting_q)
	vfRegister("VfC13_accounting_t", VfC13_accounting_t)
}

type vfCOp struct {
	id   uint64
	typ  spb.AFTOperation_Operation
	kind int // 0 ipv4, 1 nhg, 2 nh, 3 mpls, 4 ipv6
	pfx  string
	num  uint64
}

func vfSymCOp(name string, kinds []int, maxType int) (*vfCOp, *spb.AFTOperation) {
	d := &vfCOp{id: vfU64(name + ".id"), kind: kinds[vfInt(name+".kind", 0, len(kinds)-1)]}
	switch vfInt(name+".type", 1, maxType) {
	case 1:
		d.typ = spb.AFTOperation_ADD
	case 2:
		d.typ = spb.AFTOperation_REPLACE
	default:
		d.typ = spb.AFTOperation_DELETE
	}
	op := &spb.AFTOperation{Id: d.id, Op: d.typ, NetworkInstance: "DEFAULT"}
	switch d.kind {
	case 0:
		d.pfx = vfStrK(name+".pfx", "prefix4")
		op.Entry = &spb.AFTOperation_Ipv4{Ipv4: &aftpb.Afts_Ipv4EntryKey{Prefix: d.pfx}}
	case 1:
		d.num = vfU64(name + ".num")
		op.Entry = &spb.AFTOperation_NextHopGroup{NextHopGroup: &aftpb.Afts_NextHopGroupKey{Id: d.num}}
	case 2:
		d.num = vfU64(name + ".num")
		op.Entry = &spb.AFTOperation_NextHop{NextHop: &aftpb.Afts_NextHopKey{Index: d.num}}
	case 3:
		d.num = vfU64(name + ".num")
		op.Entry = &spb.AFTOperation_Mpls{Mpls: &aftpb.Afts_LabelEntryKey{Label: &aftpb.Afts_LabelEntryKey_LabelUint64{LabelUint64: d.num}}}
	case 4:
		d.pfx = vfStrK(name+".pfx6", "prefix6")
		op.Entry = &spb.AFTOperation_Ipv6{Ipv6: &aftpb.Afts_Ipv6EntryKey{Prefix: d.pfx}}
	}
	return d, op
}

// vfGhost: the accounting the property describes.
type vfGhost struct {
	fib      bool
	pending  map[uint64]*vfCOp
	terminal map[uint64]int // number of terminal results expected in the result queue per id
	info     map[uint64]int // informational (non-terminal) results expected per id
	sendErrs int
	recvErrs int
	elecPend bool
	sessPend bool
}

func (g *vfGhost) isTerminal(st spb.AFTResult_Status) bool {
	switch st {
	case spb.AFTResult_FAILED, spb.AFTResult_FIB_PROGRAMMED, spb.AFTResult_FIB_FAILED:
		return true
	case spb.AFTResult_RIB_PROGRAMMED:
		return !g.fib
	}
	return false
}

func vfStatusOf(i int) spb.AFTResult_Status {
	return []spb.AFTResult_Status{spb.AFTResult_FAILED, spb.AFTResult_RIB_PROGRAMMED, spb.AFTResult_FIB_PROGRAMMED, spb.AFTResult_FIB_FAILED, spb.AFTResult_UNSET}[i]
}

// check compares the client's queues with the ghost accounting.
func (g *vfGhost) check(c *Client) {
	vfAssert(len(c.qs.pendq.Ops) == len(g.pending), "C13:pending-set-size")
	for id, d := range g.pending {
		p := c.qs.pendq.Ops[id]
		vfAssert(p != nil, "C13:operation-not-lost-while-unanswered")
		if p != nil {
			vfAssert(p.Op.GetId() == id && p.Op.GetOp() == d.typ, "C13:pending-entry-is-the-operation")
		}
	}
	vfAssert((c.qs.pendq.Election != nil) == g.elecPend, "C13:pending-election-tracked")
	vfAssert((c.qs.pendq.SessionParams != nil) == g.sessPend, "C13:pending-session-params-tracked")
	// results: per id, the number of terminal results equals the number of completions (never completed twice)
	for id, want := range g.terminal {
		n := 0
		for _, r := range c.qs.resultq {
			if r != nil && r.Details != nil && r.OperationID == id && g.isTerminal(r.ProgrammingResult) {
				n++
			}
		}
		vfAssert(n == want, "C13:each-completion-yields-exactly-one-terminal-result")
	}
	se, re := c.hasErrors()
	vfAssert(len(se) == g.sendErrs, "C13:send-errors-recorded")
	vfAssert(len(re) == g.recvErrs, "C13:receive-errors-recorded")
}

func vfC13(nPre, nSteps int, kinds []int, maxType int) {
	fib := vfBool("fib-ack")
	opts := []Opt{ElectedPrimaryClient(&spb.Uint128{Low: 1}), PersistEntries()}
	if fib {
		opts = append(opts, FIBACK())
	}
	c, err := New(opts...)
	if err != nil {
		panic(err)
	}
	g := &vfGhost{fib: fib, pending: map[uint64]*vfCOp{}, terminal: map[uint64]int{}, info: map[uint64]int{}}
	c.StartSending()
	g.elecPend, g.sessPend = true, true
	// the server may already have answered the session parameters and the election announcement
	if vfBool("pre.handshake-answered") {
		if err := c.handleModifyResponse(&spb.ModifyResponse{SessionParamsResult: &spb.SessionParametersResult{}}); err != nil {
			panic(err)
		}
		if err := c.handleModifyResponse(&spb.ModifyResponse{ElectionId: &spb.Uint128{Low: 1}}); err != nil {
			panic(err)
		}
		g.elecPend, g.sessPend = false, false
	}
	// pre-state: operations handed to the client, each in its own request or all in ONE request
	var preOps []*spb.AFTOperation
	for i := 0; i < nPre; i++ {
		if vfBool("pre.live") {
			d, op := vfSymCOp("pre", kinds, maxType)
			preOps = append(preOps, op)
			if g.pending[d.id] != nil {
				g.sendErrs++
			} else {
				g.pending[d.id] = d
			}
		}
	}
	if len(preOps) > 1 && vfBool("pre.one-request") {
		c.Q(&spb.ModifyRequest{Operation: preOps})
	} else {
		for _, op := range preOps {
			c.Q(&spb.ModifyRequest{Operation: []*spb.AFTOperation{op}})
		}
	}
	g.check(c)
	vfReach("pre-built")
	for s := 0; s < nSteps; s++ {
		resp := &spb.ModifyResponse{}
		shape := vfInt("resp.shape", 0, 4)
		type rd struct {
			id uint64
			st spb.AFTResult_Status
		}
		var rs []rd
		addResults := func(n int) {
			for i := 0; i < n; i++ {
				r := rd{id: vfU64("res.id"), st: vfStatusOf(vfInt("res.status", 0, 4))}
				rs = append(rs, r)
				resp.Result = append(resp.Result, &spb.AFTResult{Id: r.id, Status: r.st})
			}
		}
		switch shape {
		case 0:
			addResults(1)
		case 1:
			addResults(2)
		case 2:
			resp.ElectionId = &spb.Uint128{Low: 1}
		case 3:
			resp.SessionParamsResult = &spb.SessionParametersResult{}
		case 4: // protocol violation: two kinds of content
			resp.ElectionId = &spb.Uint128{Low: 1}
			addResults(1)
		}
		before := len(c.qs.resultq)
		herr := c.handleModifyResponse(resp)
		if herr != nil {
			c.addReadErr(herr) // what the receiver goroutine does
		}
		// ---- ghost ----
		wantErr := false
		switch shape {
		case 2:
			g.elecPend = false
		case 3:
			g.sessPend = false
		case 4:
			wantErr = true
		default:
			for i, r := range rs {
				d := g.pending[r.id]
				if d != nil {
					// the appended result describes the pending operation with that id
					if before+i < len(c.qs.resultq) {
						or := c.qs.resultq[before+i]
						vfAssert(or != nil && or.OperationID == r.id && or.ProgrammingResult == r.st, "C13:result-carries-id-and-status")
						if or != nil && or.Details != nil {
							vfAssert(or.Details.Type == constants.OpFromAFTOp(d.typ), "C13:result-carries-operation-type")
							switch d.kind {
							case 0:
								vfAssert(or.Details.IPv4Prefix == d.pfx, "C13:result-carries-operation-key")
							case 1:
								vfAssert(or.Details.NextHopGroupID == d.num, "C13:result-carries-operation-key")
							case 2:
								vfAssert(or.Details.NextHopIndex == d.num, "C13:result-carries-operation-key")
							case 3:
								vfAssert(or.Details.MPLSLabel == d.num, "C13:result-carries-operation-key")
							case 4:
								vfAssert(or.Details.IPv6Prefix == d.pfx, "C13:result-carries-operation-key")
							}
						} else {
							vfAssert(false, "C13:result-has-details")
						}
					} else {
						vfAssert(false, "C13:result-appended")
					}
					if g.isTerminal(r.st) {
						delete(g.pending, r.id)
						g.terminal[r.id]++
					} else {
						g.info[r.id]++
						if _, ok := g.terminal[r.id]; !ok {
							g.terminal[r.id] = 0
						}
					}
					continue
				}
				// not pending: only a RIB acknowledgement in FIB-ack mode is tolerated
				if r.st == spb.AFTResult_RIB_PROGRAMMED && fib {
					continue
				}
				wantErr = true
				break
			}
		}
		vfAssert((herr != nil) == wantErr, "C13:response-error-iff-protocol-violation")
		if wantErr {
			g.recvErrs++
		}
		g.check(c)
	}
	// convergence
	conv := len(g.pending) == 0 && !g.elecPend && !g.sessPend
	vfAssert(c.isConverged() == conv, "C13:converged-iff-nothing-queued-or-pending")
	if conv || g.sendErrs+g.recvErrs > 0 {
		aerr := c.AwaitConverged(context.Background())
		if g.sendErrs+g.recvErrs > 0 {
			ce, ok := aerr.(*ClientErr)
			vfAssert(ok, "C13:await-converged-returns-recorded-errors")
			if ok {
				vfAssert(len(ce.Send) == g.sendErrs && len(ce.Recv) == g.recvErrs, "C13:await-converged-error-lists")
			}
			vfReach("await-errors")
		} else {
			vfAssert(aerr == nil, "C13:await-converged-succeeds-when-answered")
			vfReach("await-ok")
		}
	}
	vfReach("end")
}

func VfC13_accounting_q() { vfC13(2, 1, []int{0, 1, 3}, 3) }
func VfC13_accounting_t() { vfC13(1, 2, []int{0, 2, 4}, 3) }

// VfC13_recvViolation: through the REAL receive loop (Connect's goroutines), a response that completes the last
// pending operation AND carries a result for an id that was never sent.  Whatever the interleaving of the
// receiver with the convergence check (every schedule with up to 2 pre-emptions at synchronisation points), the
// check never reports success: it returns the recorded error.
func VfC13_recvViolation() {
	st := vfNewCStream()
	st.violate = true
	stub := &vfCStub{streams: []*vfCStream{st}}
	c, err := New(ElectedPrimaryClient(&spb.Uint128{Low: 1}), PersistEntries())
	if err != nil {
		panic(err)
	}
	c.UseStub(stub)
	ctx := context.Background()
	if err := c.Connect(ctx); err != nil {
		panic(err)
	}
	c.StartSending()
	n := vfInt("ops", 1, 2)
	var aerr error
	if vfEngine() {
		vfSched(2)
		for i := 0; i < n; i++ {
			c.Q(vfCOpN(uint64(i + 1)))
		}
		aerr = c.AwaitConverged(ctx)
		vfSched(0)
	} else {
		// Native replay: the window the engine's scheduler found lies between the receiver's handling of the
		// response and its recording of the error, where the receiver logs.  It is widened deterministically by
		// making that log write block: stderr becomes a full pipe until the convergence check had its chance.
		rd, wr, perr := os.Pipe()
		if perr != nil {
			panic(perr)
		}
		saved := os.Stderr
		fill := make([]byte, 1<<16)
		wr.Write(fill) // a Linux pipe holds 64 KiB: the next write blocks
		os.Stderr = wr
		done := make(chan error, 1)
		for i := 0; i < n; i++ {
			c.Q(vfCOpN(uint64(i + 1)))
		}
		go func() { done <- c.AwaitConverged(ctx) }()
		select {
		case aerr = <-done:
		case <-time.After(700 * time.Millisecond):
			// the check is (rightly) waiting for the receiver: let the log write through
			os.Stderr = saved
			go io.Copy(io.Discard, rd)
			aerr = <-done
		}
		os.Stderr = saved
		go io.Copy(io.Discard, rd)
	}
	vfAssert(aerr != nil, "C13:convergence-never-reported-after-a-violating-response")
	vfSettleC()
	_, re := c.hasErrors()
	vfAssert(len(re) >= 1, "C13:violating-response-recorded-as-receive-error")
	vfReach("end")
}

func init() { vfRegister("VfC13_longReader", VfC13_longReader) }

// VfC13_longReader: "at all times".  A reader of the results is in progress (it holds the results read lock, as a
// long Results() / AckResult() / Status() call does) while answers arrive.  Everything the receiver can do before it
// has to wait for that reader is done (the goroutines run until none can move); at that moment every request that
// was handed over is pending or in the results - never in neither.  Two positions of the reader: before the
// session's own requests (parameters, election id) are sent, or after, around 1..3 operations.
func VfC13_longReader() {
	st := vfNewCStream()
	stub := &vfCStub{streams: []*vfCStream{st}}
	c, err := New(ElectedPrimaryClient(&spb.Uint128{Low: 1}), PersistEntries())
	if err != nil {
		panic(err)
	}
	c.UseStub(stub)
	ctx := context.Background()
	if err := c.Connect(ctx); err != nil {
		panic(err)
	}
	early := vfBool("reader-before-session-requests")
	n := vfInt("ops", 1, 3)
	if early {
		c.qs.resultMu.RLock()
	}
	c.StartSending()
	vfSettleC()
	if !early {
		c.qs.resultMu.RLock()
	}
	for i := 0; i < n; i++ {
		c.Q(vfCOpN(uint64(i + 1)))
	}
	vfSettleC()
	// the reader looks at both queues (it already holds the results lock)
	pend, perr := c.Pending() // public API: takes only the pending lock, which nobody holds now
	if perr != nil {
		panic(perr)
	}
	inP := map[uint64]bool{}
	pendElec, pendParams := false, false
	for _, p := range pend {
		switch v := p.(type) {
		case *PendingOp:
			inP[v.Op.GetId()] = true
		case *ElectionReqDetails:
			pendElec = true
		case *SessionParamReqDetails:
			pendParams = true
		}
	}
	inR := map[uint64]bool{}
	resElec, resParams := false, false
	for _, r := range c.qs.resultq {
		if r.OperationID != 0 {
			inR[r.OperationID] = true
		}
		if r.CurrentServerElectionID != nil {
			resElec = true
		}
		if r.SessionParameters != nil {
			resParams = true
		}
	}
	c.qs.resultMu.RUnlock()
	sent := map[uint64]bool{}
	st.mu.Lock()
	for _, m := range st.sent {
		for _, o := range m.Operation {
			sent[o.Id] = true
		}
	}
	st.mu.Unlock()
	for i := 0; i < n; i++ {
		id := uint64(i + 1)
		if sent[id] {
			vfAssert(inP[id] || inR[id], "C13:operation-is-pending-or-resulted-at-all-times")
			vfAssert(!(inP[id] && inR[id]), "C13:operation-never-both-pending-and-resulted")
		}
	}
	vfAssert(pendElec || resElec, "C13:election-update-is-pending-or-resulted-at-all-times")
	vfAssert(pendParams || resParams, "C13:session-parameters-are-pending-or-resulted-at-all-times")
	// once the reader has gone everything completes
	vfSettleC()
	aerr := c.AwaitConverged(ctx)
	vfAssert(aerr == nil, "C13:converges-after-the-reader-has-gone")
	rs, _ := c.Results()
	got := map[uint64]int{}
	for _, r := range rs {
		got[r.OperationID]++
	}
	for i := 0; i < n; i++ {
		vfAssert(got[uint64(i+1)] == 1, "C13:every-operation-resulted-exactly-once")
	}
	vfReach("end")
}
