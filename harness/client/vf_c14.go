//go:build verif

package client

import (
	"context"
	"io"
	"sync"
	"time"

	"google.golang.org/grpc"
	"google.golang.org/grpc/codes"
	"google.golang.org/grpc/status"

	aftpb "github.com/openconfig/gribi/v1/proto/gribi_aft"
	spb "github.com/openconfig/gribi/v1/proto/service"
)

func init() {
	vfRegister("VfC14_fault", VfC14_fault)
	vfRegister("VfC14_faultSched", VfC14_faultSched)
	vfRegister("VfC14_twoFaults", VfC14_twoFaults)
	vfRegister("VfC14_endedThenQueue", VfC14_endedThenQueue)
	vfRegister("VfC14_resetCloseError", VfC14_resetCloseError)
	vfRegister("VfC14_idleFault", VfC14_idleFault)
}

// vfCStream is a scripted Modify client stream played by a tiny conformant
// "server": every request is answered (params -> result, election -> id,
// operation -> RIB_PROGRAMMED) until the injected fault.
type vfCStream struct {
	grpc.ClientStream
	mu            sync.Mutex
	sent          []*spb.ModifyRequest
	resp          chan *spb.ModifyResponse
	sendFailAt    int // this Send (0-based) and all later ones fail; -1: never
	recvFailAfter int // Recv fails once this many responses were delivered; -1: never
	delivered     int
	gate          chan struct{} // when set, the failing Send waits here first (a slow, failing write)
	entered       chan struct{}
	enteredOnce   bool
	broken        bool
	respClosed    bool
	err           error
	// endAfter >= 0: the server ends the RPC with an OK status once that many responses were delivered: Recv
	// returns io.EOF and, as gRPC does on a terminated stream, every later Send returns io.EOF
	endAfter int
	ended    bool
	// sendOKAfterEnd: after the server ended the RPC, Send still "succeeds" for a while (gRPC buffers writes):
	// nothing is ever answered, and the client's sender only notices the end at its next loop check
	sendOKAfterEnd bool
	// closeErr: the status with which the server answers the client's half-close (nil: OK, Recv returns io.EOF)
	closeErr   error
	halfClosed bool
	// violate: every answer to an operation request also carries a result for an id that was never sent
	violate bool
}

func vfNewCStream() *vfCStream {
	return &vfCStream{resp: make(chan *spb.ModifyResponse, 64), sendFailAt: -1, recvFailAfter: -1, endAfter: -1}
}

func (s *vfCStream) closeResp() {
	if !s.respClosed {
		s.respClosed = true
		close(s.resp)
	}
}

func (s *vfCStream) Send(m *spb.ModifyRequest) error {
	s.mu.Lock()
	if s.ended {
		ok := s.sendOKAfterEnd
		s.mu.Unlock()
		if ok {
			return nil
		}
		return io.EOF
	}
	i := len(s.sent)
	if s.sendFailAt >= 0 && i >= s.sendFailAt {
		first := !s.enteredOnce
		s.enteredOnce = true
		s.mu.Unlock()
		if first && s.gate != nil {
			close(s.entered)
			<-s.gate
		}
		s.mu.Lock()
		s.broken = true
		s.closeResp() // a broken stream also ends the receive side
		s.mu.Unlock()
		return s.err
	}
	s.sent = append(s.sent, m)
	switch {
	case m.Params != nil:
		s.resp <- &spb.ModifyResponse{SessionParamsResult: &spb.SessionParametersResult{}}
	case m.ElectionId != nil:
		s.resp <- &spb.ModifyResponse{ElectionId: m.ElectionId}
	default:
		r := &spb.ModifyResponse{}
		for _, o := range m.Operation {
			r.Result = append(r.Result, &spb.AFTResult{Id: o.Id, Status: spb.AFTResult_RIB_PROGRAMMED})
		}
		if s.violate {
			r.Result = append(r.Result, &spb.AFTResult{Id: 1 << 40, Status: spb.AFTResult_RIB_PROGRAMMED})
		}
		s.resp <- r
	}
	s.mu.Unlock()
	return nil
}

func (s *vfCStream) Recv() (*spb.ModifyResponse, error) {
	s.mu.Lock()
	if s.endAfter >= 0 && s.delivered >= s.endAfter {
		s.ended = true
		s.mu.Unlock()
		return nil, io.EOF
	}
	if s.recvFailAfter >= 0 && s.delivered >= s.recvFailAfter {
		s.broken = true
		s.mu.Unlock()
		return nil, s.err
	}
	s.mu.Unlock()
	r, ok := <-s.resp
	if !ok {
		s.mu.Lock()
		defer s.mu.Unlock()
		if s.broken {
			return nil, s.err
		}
		if s.halfClosed && s.closeErr != nil {
			return nil, s.closeErr
		}
		return nil, io.EOF
	}
	s.mu.Lock()
	s.delivered++
	s.mu.Unlock()
	return r, nil
}

func (s *vfCStream) CloseSend() error {
	s.mu.Lock()
	defer s.mu.Unlock()
	s.halfClosed = true
	s.closeResp()
	return nil
}

type vfCStub struct {
	spb.GRIBIClient
	streams []*vfCStream
	n       int
}

func (s *vfCStub) Modify(ctx context.Context, opts ...grpc.CallOption) (spb.GRIBI_ModifyClient, error) {
	st := s.streams[s.n]
	s.n++
	return st, nil
}

func vfCOpN(id uint64) *spb.ModifyRequest {
	return &spb.ModifyRequest{Operation: []*spb.AFTOperation{{Id: id, NetworkInstance: "DEFAULT", Op: spb.AFTOperation_ADD,
		Entry: &spb.AFTOperation_NextHop{NextHop: &aftpb.Afts_NextHopKey{Index: id, NextHop: &aftpb.Afts_NextHop{}}}}}}
}

// vfSettleC lets the client's goroutines run until none can make progress.
func vfSettleC() {
	if vfEngine() {
		vfQuiesce()
		return
	}
	time.Sleep(40 * time.Millisecond)
}

func vfClosed(ch chan struct{}) bool {
	select {
	case <-ch:
		return true
	default:
		return false
	}
}

func vfFaultyStream() (*vfCStream, bool) {
	faulty := vfNewCStream()
	statuses := []error{status.Error(codes.Unavailable, "transport is closing"), status.Error(codes.Internal, "stream terminated"), status.Error(codes.Canceled, "context canceled")}
	faulty.err = statuses[vfInt("fault.status", 0, 2)]
	gated := false
	if vfBool("fault.on-send") {
		faulty.sendFailAt = vfInt("fault.send-index", 0, 3)
		if vfBool("fault.slow-send") {
			gated = true
			faulty.gate, faulty.entered = make(chan struct{}), make(chan struct{})
		}
	} else {
		faulty.recvFailAfter = vfInt("fault.recv-index", 0, 3)
	}
	return faulty, gated
}

func vfC14(sched int) {
	faulty, gated := vfFaultyStream()
	good := vfNewCStream()
	stub := &vfCStub{streams: []*vfCStream{faulty, good}}
	c, err := New(ElectedPrimaryClient(&spb.Uint128{Low: 1}), PersistEntries())
	if err != nil {
		panic(err)
	}
	c.UseStub(stub)
	ctx := context.Background()
	if sched > 0 {
		vfSched(sched)
	}
	if err := c.Connect(ctx); err != nil {
		panic(err)
	}
	burst := 8 // more than the send buffer (5) plus the message in flight
	qDone := make(chan struct{})
	// the burst is queued after StartSending, or before it (StartSending then flushes the waiting queue itself)
	prequeued := vfBool("burst-queued-before-start-sending")
	go func() {
		if prequeued {
			for i := 0; i < burst; i++ {
				c.Q(vfCOpN(uint64(i + 1)))
			}
			c.StartSending()
		} else {
			c.StartSending()
			for i := 0; i < burst; i++ {
				c.Q(vfCOpN(uint64(i + 1)))
			}
		}
		close(qDone)
	}()
	if gated {
		<-faulty.entered
		vfSettleC() // the application keeps queueing while the write is stuck
		close(faulty.gate)
	}
	vfSettleC()
	vfSched(0)
	vfAssert(vfClosed(qDone), "C14:calls-that-queue-requests-return")
	if !vfClosed(qDone) {
		vfReach("queue-blocked")
		return // the remaining calls would block behind it
	}
	se, re := c.hasErrors()
	vfAssert(len(se)+len(re) > 0, "C14:stream-error-recorded")
	aerr := c.AwaitConverged(ctx)
	vfAssert(aerr != nil, "C14:await-converged-returns-the-error")
	select {
	case <-c.Done():
		vfReach("done-signalled")
	default:
		vfAssert(false, "C14:done-is-signalled")
	}
	if vfBool("close-first") {
		vfAssert(c.Close() == nil, "C14:close-returns")
	}
	c.Reset()
	vfReach("reset-done")
	// a fresh connection works as a fresh client
	p, _ := c.Pending()
	r, _ := c.Results()
	se, re = c.hasErrors()
	vfAssert(len(p) == 0 && len(r) == 0 && len(se)+len(re) == 0, "C14:reset-leaves-no-stale-state")
	if err := c.Connect(ctx); err != nil {
		panic(err)
	}
	c.StartSending()
	c.Q(vfCOpN(100))
	vfAssert(c.AwaitConverged(ctx) == nil, "C14:exchange-after-reconnect-converges")
	r, _ = c.Results()
	n100 := 0
	for _, x := range r {
		if x.OperationID != 0 {
			vfAssert(x.OperationID == 100, "C14:no-stale-results-after-reconnect")
			n100++
		}
	}
	vfAssert(n100 == 1, "C14:new-operation-answered-once")
	vfAssert(c.Close() == nil, "C14:final-close-returns")
	vfReach("end")
}

func VfC14_fault()      { vfC14(0) }
func VfC14_faultSched() { vfC14(1) }

// VfC14_twoFaults: a fault, Reset + reconnect, a second fault on the new stream,
// Reset + reconnect on a healthy stream.
func VfC14_twoFaults() {
	f1, g1 := vfFaultyStream()
	f2, g2 := vfFaultyStream()
	good := vfNewCStream()
	stub := &vfCStub{streams: []*vfCStream{f1, f2, good}}
	c, err := New(ElectedPrimaryClient(&spb.Uint128{Low: 1}), PersistEntries())
	if err != nil {
		panic(err)
	}
	c.UseStub(stub)
	ctx := context.Background()
	round := func(st *vfCStream, gated bool, base uint64) bool {
		if err := c.Connect(ctx); err != nil {
			panic(err)
		}
		qDone := make(chan struct{})
		go func() {
			c.StartSending()
			for i := 0; i < 8; i++ {
				c.Q(vfCOpN(base + uint64(i)))
			}
			close(qDone)
		}()
		if gated {
			<-st.entered
			vfSettleC()
			close(st.gate)
		}
		vfSettleC()
		vfAssert(vfClosed(qDone), "C14:calls-that-queue-requests-return")
		if !vfClosed(qDone) {
			return false
		}
		vfAssert(c.AwaitConverged(ctx) != nil, "C14:await-converged-returns-the-error")
		c.Reset()
		p, _ := c.Pending()
		r, _ := c.Results()
		se, re := c.hasErrors()
		vfAssert(len(p) == 0 && len(r) == 0 && len(se)+len(re) == 0, "C14:reset-leaves-no-stale-state")
		return true
	}
	if !round(f1, g1, 1) || !round(f2, g2, 20) {
		return
	}
	if err := c.Connect(ctx); err != nil {
		panic(err)
	}
	c.StartSending()
	c.Q(vfCOpN(100))
	vfAssert(c.AwaitConverged(ctx) == nil, "C14:exchange-after-reconnect-converges")
	r, _ := c.Results()
	for _, x := range r {
		if x.OperationID != 0 {
			vfAssert(x.OperationID == 100, "C14:no-stale-results-after-reconnect")
		}
	}
	vfAssert(c.Close() == nil, "C14:final-close-returns")
	vfReach("end")
}

// VfC14_endedThenQueue: the server ends the RPC with an OK status while the client is idle (after the handshake
// and k answered operations); the application then queues further requests.  Their Send meets a terminated
// stream (io.EOF): the calls that queue return, the failure is recorded, and AwaitConverged returns it instead of
// waiting for answers that can never come.
func VfC14_endedThenQueue() {
	st := vfNewCStream()
	k := vfInt("answered-before-end", 0, 2)
	st.endAfter = 2 + k // handshake: session parameters + election id
	st.sendOKAfterEnd = vfBool("send-after-end-still-succeeds")
	stub := &vfCStub{streams: []*vfCStream{st}}
	c, err := New(ElectedPrimaryClient(&spb.Uint128{Low: 1}), PersistEntries())
	if err != nil {
		panic(err)
	}
	c.UseStub(stub)
	ctx := context.Background()
	if err := c.Connect(ctx); err != nil {
		panic(err)
	}
	c.StartSending()
	for i := 0; i < k; i++ {
		c.Q(vfCOpN(uint64(i + 1)))
	}
	vfSettleC()
	// the stream is over; the application does not know yet.  It queues three more requests, slower than the
	// client's goroutines act (they run to quiescence after every request)
	for i := 0; i < 3; i++ {
		c.Q(vfCOpN(uint64(10 + i)))
		vfSettleC()
	}
	vfReach("queued")
	se, re := c.hasErrors()
	if !st.sendOKAfterEnd {
		vfAssert(len(se)+len(re) > 0, "C14:stream-error-recorded")
	}
	// accounting (C13): an operation handed to Q is queued, pending or resulted - or its loss is reported
	pend, _ := c.Pending()
	resd, _ := c.Results()
	accounted := 0
	for _, p := range pend {
		if o, ok := p.(*PendingOp); ok && o.Op.GetId() >= 10 {
			accounted++
		}
	}
	for _, x := range resd {
		if x.OperationID >= 10 {
			accounted++
		}
	}
	c.qs.sendMu.RLock()
	for _, m := range c.qs.sendq {
		accounted += len(m.GetOperation())
	}
	c.qs.sendMu.RUnlock()
	vfAssert(accounted == 3 || len(se)+len(re) > 0, "C13:operation-handed-to-Q-is-accounted-for-or-its-loss-is-reported")
	if len(se)+len(re) > 0 {
		vfAssert(c.AwaitConverged(ctx) != nil, "C14:await-converged-returns-the-error")
	} else if accounted < 3 {
		vfAssert(c.AwaitConverged(ctx) != nil, "C13:convergence-not-reported-for-operations-that-were-never-sent")
	}
	vfAssert(c.Close() == nil, "C14:close-returns")
	vfReach("end")
}

// VfC14_resetCloseError: a fault that arrives WHILE Reset is running - the server answers the half-close that
// Reset itself issues with a non-OK status.  When Reset returns, the client is as good as new: no error of the
// old stream is left, and an exchange on a fresh, healthy stream converges.
func VfC14_resetCloseError() {
	st := vfNewCStream()
	st.closeErr = []error{status.Error(codes.Unavailable, "transport is closing"), status.Error(codes.Aborted, "aborted"), status.Error(codes.Internal, "stream terminated")}[vfInt("close.status", 0, 2)]
	good := vfNewCStream()
	stub := &vfCStub{streams: []*vfCStream{st, good}}
	c, err := New(ElectedPrimaryClient(&spb.Uint128{Low: 1}), PersistEntries())
	if err != nil {
		panic(err)
	}
	c.UseStub(stub)
	ctx := context.Background()
	if err := c.Connect(ctx); err != nil {
		panic(err)
	}
	c.StartSending()
	n := vfInt("ops", 0, 2)
	for i := 0; i < n; i++ {
		c.Q(vfCOpN(uint64(i + 1)))
	}
	vfAssert(c.AwaitConverged(ctx) == nil, "C14:healthy-exchange-converges")
	c.Reset()
	vfReach("reset-done")
	p, _ := c.Pending()
	r, _ := c.Results()
	se, re := c.hasErrors()
	vfAssert(len(p) == 0 && len(r) == 0 && len(se)+len(re) == 0, "C14:reset-leaves-no-stale-state")
	if err := c.Connect(ctx); err != nil {
		panic(err)
	}
	c.StartSending()
	c.Q(vfCOpN(100))
	vfAssert(c.AwaitConverged(ctx) == nil, "C14:exchange-after-reconnect-converges")
	vfAssert(c.Close() == nil, "C14:final-close-returns")
	vfReach("end")
}

// VfC14_idleFault: the fault arrives when NOTHING is outstanding - after the handshake and k answered operations
// the receive side fails with a status error.  The queues are empty, so "converged" and "failed" compete:
// the error is recorded, AwaitConverged returns it instead of reporting convergence, Done is signalled, Close returns.
func VfC14_idleFault() {
	st := vfNewCStream()
	k := vfInt("answered-before-fault", 0, 2)
	st.recvFailAfter = 2 + k // handshake: session parameters + election id
	st.err = []error{status.Error(codes.Unavailable, "transport is closing"), status.Error(codes.Aborted, "aborted"), status.Error(codes.Internal, "stream terminated")}[vfInt("fault.status", 0, 2)]
	stub := &vfCStub{streams: []*vfCStream{st}}
	c, err := New(ElectedPrimaryClient(&spb.Uint128{Low: 1}), PersistEntries())
	if err != nil {
		panic(err)
	}
	c.UseStub(stub)
	ctx := context.Background()
	if err := c.Connect(ctx); err != nil {
		panic(err)
	}
	c.StartSending()
	for i := 0; i < k; i++ {
		c.Q(vfCOpN(uint64(i + 1)))
	}
	vfSettleC()
	vfReach("idle")
	se, re := c.hasErrors()
	vfAssert(len(se)+len(re) > 0, "C14:stream-error-recorded")
	p, _ := c.Pending()
	vfAssert(len(p) == 0, "C14:idle-fault-nothing-outstanding") // harness sanity: the fault really came after the last answer
	vfAssert(c.AwaitConverged(ctx) != nil, "C14:await-converged-returns-the-error")
	select {
	case <-c.Done():
		vfReach("done-signalled")
	default:
		vfAssert(false, "C14:done-is-signalled")
	}
	vfAssert(c.Close() == nil, "C14:close-returns")
	vfReach("end")
}
