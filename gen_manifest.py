#!/usr/bin/env python3
"""Regenerates MANIFEST.json from checks.py (single source of truth)."""
import json, os, sys
sys.path.insert(0, os.path.dirname(os.path.abspath(__file__)))
import checks as CH

ALL = ["C%02d" % i for i in range(1, 20)]
checks = []
for pid in ALL:
    if pid not in CH.CHECKS:
        continue
    s = CH.CHECKS[pid]
    checks.append(dict(
        property_id=pid,
        quick_cmd=f"./check {pid} quick",
        thorough_cmd=f"./check {pid} thorough",
        evidence_file=f"/verif/evidence/{pid}.json",
        replay_cmd_template=f"./check {pid} --replay {{path}}",
        engine="gosym",
        level_claimed=dict(category="model_checking", text=s["level_text"], design_ref=s.get("design_ref", "DESIGN.md §7 " + pid)),
        level_note=s["level_note"],
        technique=s.get("technique", "bounded symbolic execution of the real go/ssa (gosym) + SMT (z3) per assertion; counterexamples replayed natively"),
    ))
na = [dict(property_id=p, reason=r) for p, r in sorted(CH.NOT_APPLICABLE.items()) if p not in CH.CHECKS]
for pid in ALL:
    if pid not in CH.CHECKS and pid not in CH.NOT_APPLICABLE:
        na.append(dict(property_id=pid, reason="no check registered yet in this revision (machinery under construction); not claimed"))
m = dict(
    version=1,
    setup_cmd="cd /verif/engine && PATH=/opt/veriftools/go1.26.8/bin:$PATH GOFLAGS=-mod=mod GOPROXY=off GOSUMDB=off GOTOOLCHAIN=local go build -o ../bin/gosym .",
    hooks=dict(guard="verif", enable="harness files carry //go:build verif and are injected with -overlay (go/packages Overlay for the engine, go test -overlay -tags verif for native replay); nothing is written into /repo",
               baseline_off_cmd="cd /repo && PATH=/opt/veriftools/go1.26.8/bin:$PATH GOFLAGS=-mod=mod GOPROXY=off GOTOOLCHAIN=local go test -vet=off -count=1 -timeout 25m ./...",
               source_commits=CH.FIX_COMMITS, add_only=True),
    engines=[dict(name="gosym", path="/verif/engine", serves_properties=[c["property_id"] for c in checks],
                  kind_free_text="symbolic interpreter of go/ssa (forked from x/tools/go/ssa/interp) with SMT-backed forking, persistent z3 -in per worker, native replay of counterexamples")],
    checks=checks,
    notes="Exit codes of ./check: 0 held (KNOWN-FINDING lines allowed), 1 VIOLATION (confirmed by native replay), 2 inconclusive. See DESIGN.md.",
    not_applicable=sorted(na, key=lambda x: x["property_id"]),
)
json.dump(m, open(os.path.join(os.path.dirname(os.path.abspath(__file__)), "MANIFEST.json"), "w"), indent=1)
print("MANIFEST.json:", len(checks), "checks,", len(na), "not applicable")
