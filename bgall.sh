#!/bin/bash
# usage: bgall.sh <tier> [props...] -- run from a vp snapshot
export PATH=/opt/veriftools/go1.26.8/bin:$PATH GOFLAGS=-mod=mod GOPROXY=off GOTOOLCHAIN=local GOSUMDB=off
(cd engine && go build -o ../bin/gosym .)
tier=$1; shift
props=${@:-C01 C02 C03 C04 C05 C06 C07 C08 C09 C10 C11 C12 C13 C14 C15 C16 C17 C18 C19}
for c in $props; do
  s=$(date +%s)
  ./check $c $tier 2>&1 | grep -E "VIOL|INCONC|KNOWN|$tier:|paths=" | cut -c1-400
  echo "== $c $tier took $(( $(date +%s) - s ))s rc=${PIPESTATUS[0]}"
done
