#!/usr/bin/env python3
"""Development aid: run every thorough-only harness once with a wall-clock budget and print its size (paths, wall),
to decide which thorough bounds are feasible.  usage: thor_probe.py <budget_s> [property ...]"""
import json, os, subprocess, sys, time, importlib.machinery, importlib.util
V = os.path.dirname(os.path.abspath(__file__))
sys.path.insert(0, V)
import checks as CH
l = importlib.machinery.SourceFileLoader("chk", os.path.join(V, "check")); m = importlib.util.module_from_spec(importlib.util.spec_from_loader("chk", l)); l.exec_module(m)
budget = int(sys.argv[1]); props = sys.argv[2:] or sorted(CH.CHECKS)
out = os.path.join(V, "out", "THOR"); os.makedirs(out, exist_ok=True)
gosym = m.ensure_engine(); ov = m.build_overlay(out, False)
seen = set()
for pid in props:
    for run in CH.CHECKS[pid]["runs"]:
        if not run.get("quick", {}).get("skip") or run["harness"] in seen:
            continue
        seen.add(run["harness"])
        opts = dict(run.get("opts", {})); opts.update(run.get("thorough", {}))
        cmd = [gosym, "-repo", m.REPO, "-overlay", ov, "-redirects", os.path.join(V, "harness", "redirects.json"), "-known", os.path.join(V, "known_findings.json"),
               "-out", os.path.join(out, run["harness"] + ".json"), "-workers", "16", "-unwind", str(opts.get("unwind", 8)), "-budget-s", str(budget),
               "-harness", f"{m.MODPATH}/{run['pkg']}.{run['harness']}"]
        for k in ("maxsteps", "maxsleeps", "mapperm"):
            if k in opts: cmd += ["-" + k, str(opts[k])]
        if os.path.exists(os.path.join(V, "out", "C01", "calib.json")): cmd += ["-calib", os.path.join(V, "out", "C01", "calib.json")]
        for p in run.get("load", [run["pkg"]]): cmd += ["-pkg", f"{m.MODPATH}/{p}"]
        for p in run.get("initpkg", []): cmd += ["-initpkg", p]
        t = time.time()
        r = subprocess.run(cmd, env=m.goenv(), capture_output=True, text=True)
        line = [x for x in r.stderr.splitlines() if "paths=" in x]
        stopped = ""
        try:
            stopped = json.load(open(os.path.join(out, run["harness"] + ".json")))["results"][0].get("Stopped") or ""
        except Exception:
            pass
        print(pid, run["harness"], "%.0fs" % (time.time() - t), "STOPPED:" + stopped if stopped else "complete", (line[0][:200] if line else r.stderr[-300:]), flush=True)
