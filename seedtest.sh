#!/bin/bash
# usage: seedtest.sh <patch.diff> <tier> <check> [<check>...]
# applies a seeded change to /repo, runs the named checks, reverts /repo.
patch=$1; tier=$2; shift 2
cd /repo && git apply "$patch" || { echo "PATCH DOES NOT APPLY"; exit 9; }
cd /verif
for c in "$@"; do
  ./check $c $tier 2>&1 | grep -E "^VIOLATION|^KNOWN|^INCONCLUSIVE|$tier:" | cut -c1-260
done
git -C /repo checkout -- . && git -C /repo clean -fdq
